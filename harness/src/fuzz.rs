//! Entry points for the coverage-guided fuzz targets (harness/fuzz): bytes -> structured case
//! through `arbitrary::Unstructured`, then the same interpreter and oracles as the proptest checks.
use crate::cfg::{Config, Kernel, Kind, ALL_KINDS, AUDIO_RATES, AWKWARD_RATIOS, MAX_RELS};
use crate::engine::{Outcome, Property};
use crate::hist::{call_cost, Op, Path};
use crate::props::c15::KernelCase;
use crate::props::hist_props::{HistCase, HistProp, Which};
use arbitrary::{Result, Unstructured};

fn small_usize(u: &mut Unstructured, max: usize) -> Result<usize> {
    // half of the mass on small values
    let v = if u.ratio(1, 2)? { u.int_in_range(1..=max.min(16))? } else { u.int_in_range(1..=max)? };
    Ok(v)
}

fn unit(u: &mut Unstructured) -> Result<f64> {
    Ok(u.int_in_range(0u32..=1_000_000)? as f64 / 1_000_000.0)
}

pub fn config(u: &mut Unstructured) -> Result<Config> {
    let kind = ALL_KINDS[u.int_in_range(0..=6usize)?];
    let ratio = if u.ratio(1, 5)? { AWKWARD_RATIOS[u.int_in_range(0..=AWKWARD_RATIOS.len() - 1)?] } else { (1.0 / 16.0) * 256f64.powf(unit(u)?) };
    let (rate_in, rate_out) = if u.ratio(1, 2)? {
        (AUDIO_RATES[u.int_in_range(0..=AUDIO_RATES.len() - 1)?], AUDIO_RATES[u.int_in_range(0..=AUDIO_RATES.len() - 1)?])
    } else {
        (u.int_in_range(1..=64usize)?, u.int_in_range(1..=64usize)?)
    };
    let g = crate::cfg::gcd(rate_in, rate_out);
    let (rate_in, rate_out) = if (rate_in / g).max(rate_out / g) > 512 { (rate_in / g % 64 + 1, rate_out / g % 64 + 1) } else { (rate_in, rate_out) };
    let max_rel = if u.ratio(3, 4)? { MAX_RELS[u.int_in_range(0..=MAX_RELS.len() - 1)?] } else { 16f64.powf(unit(u)?) };
    let kernel = if kind.is_sinc() { [Kernel::Dispatch, Kernel::Scalar, Kernel::Sse, Kernel::Avx, Kernel::RangeProbe, Kernel::OddProbe][u.int_in_range(0..=5usize)?] } else { Kernel::Dispatch };
    Ok(Config {
        kind,
        f32: u.arbitrary()?,
        ratio,
        rate_in,
        rate_out,
        max_rel,
        chunk: small_usize(u, 512)?,
        sub_chunks: if u.ratio(3, 4)? { 1 } else { u.int_in_range(1..=8usize)? },
        channels: if u.ratio(2, 3)? { 1 } else { u.int_in_range(1..=4usize)? },
        degree: u.int_in_range(0..=4u8)?,
        sinc_len: u.int_in_range(1..=96usize)?,
        f_cutoff: 0.3 + 0.7 * unit(u)? as f32,
        os: small_usize(u, 32)?,
        interp: u.int_in_range(0..=3u8)?,
        window: u.int_in_range(0..=5u8)?,
        kernel,
        allow_known: false,
    })
}

fn mask(u: &mut Unstructured) -> Result<Option<u8>> {
    Ok(if u.ratio(2, 3)? { None } else { Some(u.arbitrary()?) })
}

pub fn op(u: &mut Unstructured) -> Result<Op> {
    let path = if u.ratio(3, 4)? { Path::Pib } else { Path::Alloc };
    let slack = |u: &mut Unstructured| -> Result<u8> { Ok(if u.ratio(3, 4)? { 0 } else { u.int_in_range(0..=40u8)? }) };
    Ok(match u.int_in_range(0..=20u8)? {
        // setter calls that must be rejected and leave everything unchanged
        20 => {
            if u.ratio(1, 2)? {
                Op::SetRatioRaw { value: [0.0, -1.0, 1e-300, 1e300, f64::NAN, f64::INFINITY][u.int_in_range(0..=5usize)?], relative: u.arbitrary()?, ramp: u.arbitrary()? }
            } else {
                Op::SetChunkRaw { size: [0usize, usize::MAX, 1 << 40][u.int_in_range(0..=2usize)?] }
            }
        }
        0..=9 => Op::Process { path, slack_in: slack(u)?, slack_out: slack(u)?, mask: mask(u)? },
        10..=11 => Op::Partial { path, frac: if u.ratio(1, 3)? { None } else { Some(u.arbitrary()?) }, slack_out: slack(u)?, mask: mask(u)? },
        12..=16 => Op::SetRatio { pos: if u.ratio(1, 6)? { 0.0 } else { 2.0 * unit(u)? - 1.0 }, relative: u.arbitrary()?, ramp: u.arbitrary()? },
        17..=18 => Op::SetChunk { frac: u.arbitrary()? },
        _ => Op::Reset,
    })
}

pub fn hist_case(data: &[u8]) -> Option<HistCase> {
    let mut u = Unstructured::new(data);
    let mut cfg = config(&mut u).ok()?;
    let seed: u64 = u.arbitrary().ok()?;
    let n = u.int_in_range(0..=40usize).ok()?;
    let mut ops = vec![];
    for _ in 0..n {
        match op(&mut u) {
            Ok(o) => ops.push(o),
            Err(_) => break,
        }
    }
    let calls = ops.iter().filter(|o| o.is_call()).count().max(1) as f64;
    while call_cost(&cfg) * calls > 3e6 && cfg.chunk > 1 {
        cfg.chunk = (cfg.chunk / 2).max(1);
    }
    Some(HistCase { cfg, seed, ops, envelope: true, via_vec: false })
}

/// C03 + C04 monitors on one decoded history; returns the first failing outcome
pub fn run_hist(c: &HistCase) -> Option<(&'static str, Outcome)> {
    for (id, w) in [("C03", Which::C03), ("C04", Which::C04)] {
        let o = HistProp(w).run(c);
        if o.fail.is_some() {
            return Some((id, o));
        }
    }
    None
}

pub fn kernel_case(data: &[u8]) -> Option<KernelCase> {
    let mut u = Unstructured::new(data);
    let l8 = u.int_in_range(1..=64usize).ok()?;
    let os = small_usize(&mut u, 64).ok()?.min(((1usize << 13) / (8 * l8)).max(1));
    let npts = u.int_in_range(1..=16usize).ok()?;
    let mut points = vec![];
    for _ in 0..npts {
        points.push((u.arbitrary().ok()?, u.arbitrary().ok()?));
    }
    Some(KernelCase { f32: u.arbitrary().ok()?, l8, os, window: u.int_in_range(0..=5u8).ok()?, fc: 0.2 + 0.8 * unit(&mut u).ok()? as f32, wave: u.int_in_range(0..=3u8).ok()?, seed: u.arbitrary().ok()?, align: u.int_in_range(0..=7u8).ok()?, extra: u.int_in_range(1..=40usize).ok()?, points })
}

pub fn run_kernel(c: &KernelCase) -> Option<Outcome> {
    let o = crate::props::c15::C15.run(&crate::props::c15::Case::Kernel(c.clone()));
    if o.fail.is_some() {
        Some(o)
    } else {
        None
    }
}

pub fn kind_name(k: Kind) -> &'static str {
    k.name()
}

/// One decoded input for the `twins` target: the differential properties C10, C11, C16, C17 all take
/// (configuration, history); the trailing bytes choose their extra knobs.
pub struct TwinCases {
    pub c10: crate::props::c10::Case,
    pub c11: crate::props::c11::Case,
    pub c16: crate::props::c16::Case,
    pub c17: crate::props::c17::Case,
}

pub fn twin_cases(data: &[u8]) -> Option<TwinCases> {
    let mut u = Unstructured::new(data);
    let mut cfg = config(&mut u).ok()?;
    cfg.kernel = if cfg.kernel == Kernel::RangeProbe { Kernel::Dispatch } else { cfg.kernel };
    let seed: u64 = u.arbitrary().ok()?;
    let split: u8 = u.arbitrary().ok()?;
    let mask: Option<u8> = mask(&mut u).ok()?;
    let via_vec: bool = u.arbitrary().ok()?;
    let flush: u8 = u.int_in_range(0..=4u8).ok()?;
    let failed_call: bool = u.arbitrary().ok()?;
    let tone_f = 0.001 + 0.4 * unit(&mut u).ok()?;
    let n = u.int_in_range(1..=24usize).ok()?;
    let mut ops = vec![];
    for _ in 0..n {
        match op(&mut u) {
            Ok(o) => ops.push(o),
            Err(_) => break,
        }
    }
    let calls = ops.iter().filter(|o| o.is_call()).count().max(1) as f64;
    while call_cost(&cfg) * calls > 1.5e6 && cfg.chunk > 1 {
        cfg.chunk = (cfg.chunk / 2).max(1);
    }
    let k = (split as usize * (ops.len() + 1)) >> 8;
    let (prefix, suffix) = (ops[..k].to_vec(), ops[k..].to_vec());
    let mut cfg17 = cfg.clone();
    cfg17.channels = cfg17.channels.min(2);
    Some(TwinCases {
        c10: crate::props::c10::Case { cfg: cfg.clone(), seed, prefix, failed_call, suffix },
        c11: crate::props::c11::Case { cfg: cfg.clone(), seed, mask, ops: ops.clone(), via_vec: via_vec && flush % 2 == 1, unmask_after_reset: flush >= 2 },
        c16: crate::props::c16::Case { cfg: cfg.clone(), seed, ops: ops.clone(), via_vec, flush },
        c17: crate::props::c17::Case { cfg: cfg17, seed, tones: vec![crate::signal::Tone { f: tone_f, a: 0.8, ph: 0.5 }], ops, amp_exp: -2 * (flush as i16 % 4) },
    })
}

pub fn run_twins(t: &TwinCases) -> Option<(&'static str, Outcome, String)> {
    let o = crate::props::c10::C10.run(&t.c10);
    if o.fail.is_some() {
        return Some(("C10", o, serde_json::to_string(&t.c10).unwrap()));
    }
    let o = crate::props::c11::C11.run(&t.c11);
    if o.fail.is_some() {
        return Some(("C11", o, serde_json::to_string(&t.c11).unwrap()));
    }
    let o = crate::props::c16::C16.run(&t.c16);
    if o.fail.is_some() {
        return Some(("C16", o, serde_json::to_string(&t.c16).unwrap()));
    }
    let o = crate::props::c17::C17.run(&t.c17);
    if o.fail.is_some() {
        return Some(("C17", o, serde_json::to_string(&t.c17).unwrap()));
    }
    None
}

/// One decoded input for the `faults` target (C13): valid prefix, one malformed call with 1..=2 injected
/// faults, valid suffix compared with a twin that never saw the malformed call.
pub fn fault_case(data: &[u8]) -> Option<crate::props::c13::Case> {
    use crate::props::c13::{CallCase, Case, ChCount, FPath, Fault};
    let mut u = Unstructured::new(data);
    let mut cfg = config(&mut u).ok()?;
    cfg.kernel = if cfg.kernel == Kernel::RangeProbe { Kernel::Dispatch } else { cfg.kernel };
    let seed: u64 = u.arbitrary().ok()?;
    let cc = |u: &mut Unstructured| -> Result<ChCount> { Ok([ChCount::Zero, ChCount::Minus1, ChCount::Plus1, ChCount::Double][u.int_in_range(0..=3usize)?]) };
    let nf = u.int_in_range(1..=2usize).ok()?;
    let mut faults = vec![];
    for _ in 0..nf {
        faults.push(match u.int_in_range(0..=4u8).ok()? {
            0 => Fault::InCh(cc(&mut u).ok()?),
            1 => Fault::OutCh(cc(&mut u).ok()?),
            2 => Fault::ShortIn { ch: u.arbitrary().ok()?, frac: u.arbitrary().ok()? },
            3 => Fault::ShortOut { ch: u.arbitrary().ok()?, frac: u.arbitrary().ok()? },
            _ => Fault::MaskLen(cc(&mut u).ok()?),
        });
    }
    let path = [FPath::Pib, FPath::Alloc, FPath::PartialPib][u.int_in_range(0..=2usize).ok()?];
    let m = mask(&mut u).ok()?;
    let split: u8 = u.arbitrary().ok()?;
    let n = u.int_in_range(0..=16usize).ok()?;
    let mut ops = vec![];
    for _ in 0..n {
        match op(&mut u) {
            Ok(o) => ops.push(o),
            Err(_) => break,
        }
    }
    let calls = ops.iter().filter(|o| o.is_call()).count().max(1) as f64;
    while call_cost(&cfg) * calls > 1.5e6 && cfg.chunk > 1 {
        cfg.chunk = (cfg.chunk / 2).max(1);
    }
    let k = (split as usize * (ops.len() + 1)) >> 8;
    let (prefix, suffix) = (ops[..k].to_vec(), ops[k..].to_vec());
    Some(Case::Call(CallCase { cfg, seed, prefix, faults, path, mask: m, suffix }))
}

pub fn run_fault(c: &crate::props::c13::Case) -> Option<Outcome> {
    let o = crate::props::c13::C13.run(c);
    if o.fail.is_some() {
        Some(o)
    } else {
        None
    }
}
