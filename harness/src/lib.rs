//! rv — property-based verification harness for rubato (see /verif/DESIGN.md).
#![allow(dead_code, unused_parens)]
pub mod alloc;
pub mod cfg;
pub mod dynres;
pub mod engine;
pub mod fuzz;
pub mod hist;
pub mod model;
pub mod num;
pub mod props;
pub mod signal;
