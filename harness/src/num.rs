//! Small numeric helpers: dense solve, least-squares fit of sinusoids at known frequencies.

pub fn solve(mut a: Vec<Vec<f64>>, mut b: Vec<f64>) -> Vec<f64> {
    let n = b.len();
    for i in 0..n {
        let mut p = i;
        for r in i + 1..n {
            if a[r][i].abs() > a[p][i].abs() {
                p = r;
            }
        }
        a.swap(i, p);
        b.swap(i, p);
        if a[i][i] == 0.0 {
            continue;
        }
        for r in i + 1..n {
            let f = a[r][i] / a[i][i];
            if f != 0.0 {
                for c in i..n {
                    a[r][c] -= f * a[i][c];
                }
                b[r] -= f * b[i];
            }
        }
    }
    let mut x = vec![0.0; n];
    for i in (0..n).rev() {
        let mut s = b[i];
        for c in i + 1..n {
            s -= a[i][c] * x[c];
        }
        x[i] = if a[i][i] != 0.0 { s / a[i][i] } else { 0.0 };
    }
    x
}

pub struct Fit {
    /// (a, b) per frequency: a cos(2 pi g m) + b sin(2 pi g m)
    pub coef: Vec<(f64, f64)>,
    pub resid_peak: f64,
    pub resid_rms: f64,
}

impl Fit {
    pub fn amp(&self, k: usize) -> f64 {
        (self.coef[k].0.powi(2) + self.coef[k].1.powi(2)).sqrt()
    }
    /// phase phi of a cos(2 pi g m + phi)
    pub fn phase(&self, k: usize) -> f64 {
        (-self.coef[k].1).atan2(self.coef[k].0)
    }
}

/// Least-squares fit of sum_k a_k cos(2 pi g_k m) + b_k sin(2 pi g_k m) to y[i], m = m0 + i.
pub fn ls_fit(y: &[f64], m0: usize, g: &[f64]) -> Fit {
    let k = g.len();
    let n = 2 * k;
    if k == 0 {
        let ss: f64 = y.iter().map(|v| v * v).sum();
        return Fit { coef: vec![], resid_peak: y.iter().fold(0.0, |a: f64, v| a.max(v.abs())), resid_rms: (ss / y.len().max(1) as f64).sqrt() };
    }
    let two_pi = 2.0 * std::f64::consts::PI;
    let mut ata = vec![vec![0.0; n]; n];
    let mut atb = vec![0.0; n];
    let mut row = vec![0.0; n];
    // recurrences would drift; evaluate directly with the phase reduced modulo 1
    for (i, v) in y.iter().enumerate() {
        let m = (m0 + i) as f64;
        for j in 0..k {
            let ph = two_pi * (g[j] * m).fract();
            row[2 * j] = ph.cos();
            row[2 * j + 1] = ph.sin();
        }
        for r in 0..n {
            let rr = row[r];
            for c in r..n {
                ata[r][c] += rr * row[c];
            }
            atb[r] += rr * v;
        }
    }
    for r in 0..n {
        for c in 0..r {
            ata[r][c] = ata[c][r];
        }
    }
    let x = solve(ata, atb);
    let mut peak = 0.0f64;
    let mut ss = 0.0;
    for (i, v) in y.iter().enumerate() {
        let m = (m0 + i) as f64;
        let mut f = 0.0;
        for j in 0..k {
            let ph = two_pi * (g[j] * m).fract();
            f += x[2 * j] * ph.cos() + x[2 * j + 1] * ph.sin();
        }
        let e = v - f;
        peak = peak.max(e.abs());
        ss += e * e;
    }
    Fit { coef: (0..k).map(|j| (x[2 * j], x[2 * j + 1])).collect(), resid_peak: peak, resid_rms: (ss / y.len() as f64).sqrt() }
}

/// far-stopband leakage figure of C01 per window index (dB below the signal)
pub const LEAK_DB: [f64; 6] = [80.0, 105.0, 92.0, 125.0, 120.0, 130.0];
/// stopband rejection figure of C02 per window index (dB)
pub const REJ_DB: [f64; 6] = [41.0, 58.0, 72.0, 99.0, 105.0, 138.0];
/// distance (in transition half-widths beyond the stopband edge) from which the far-stopband figure applies
pub const D_FAR: [f64; 6] = [6.0, 3.0, 4.0, 1.0, 8.0, 0.0];

pub fn db(x: f64) -> f64 {
    20.0 * x.max(1e-300).log10()
}
pub fn undb(d: f64) -> f64 {
    10f64.powf(d / 20.0)
}

/// textbook error bound of nearest / linear / quadratic / cubic interpolation of a unit sinusoid of
/// angular frequency w (radians per input sample) on a grid of 1/os input samples
pub fn interp_bound(interp: u8, os: usize, w: f64) -> f64 {
    let wh = w / os as f64;
    match interp % 4 {
        0 => 3.0 / 128.0 * wh.powi(4),
        1 => 0.0641500299 * wh.powi(3),
        2 => wh * wh / 8.0,
        _ => wh / 2.0,
    }
}
