//! Sample helpers and an object-safe adapter over `rubato::Resampler<T>`.
//! Only `Resampler` is imported (never `rubato::*`): with `VecResampler` in scope the
//! method calls would be ambiguous.
use rubato::{ResampleResult, Resampler, Sample};

pub trait SampleX: Sample + Copy + PartialEq + std::fmt::Debug + Send + Sync + 'static {
    const IS_F32: bool;
    const EPS: f64;
    fn of64(v: f64) -> Self;
    fn f64v(self) -> f64;
    fn bits(self) -> u64;
    /// A NaN with a recognisable payload; compared by bit pattern.
    fn sentinel() -> Self;
    fn is_sentinel(self) -> bool {
        self.bits() == Self::sentinel().bits()
    }
}

impl SampleX for f32 {
    const IS_F32: bool = true;
    const EPS: f64 = f32::EPSILON as f64;
    fn of64(v: f64) -> Self {
        v as f32
    }
    fn f64v(self) -> f64 {
        self as f64
    }
    fn bits(self) -> u64 {
        self.to_bits() as u64
    }
    fn sentinel() -> Self {
        f32::from_bits(0x7fc0_5eed)
    }
}

impl SampleX for f64 {
    const IS_F32: bool = false;
    const EPS: f64 = f64::EPSILON;
    fn of64(v: f64) -> Self {
        v
    }
    fn f64v(self) -> f64 {
        self
    }
    fn bits(self) -> u64 {
        self.to_bits()
    }
    fn sentinel() -> Self {
        f64::from_bits(0x7ff8_0000_5eed_5eed)
    }
}

/// All getters in one comparable record.
#[derive(Clone, Copy, Debug, PartialEq, Eq, serde::Serialize, serde::Deserialize)]
pub struct Getters {
    pub in_next: usize,
    pub in_max: usize,
    pub out_next: usize,
    pub out_max: usize,
    pub delay: usize,
    pub channels: usize,
}

pub trait DynRes<T>: Send {
    fn pib(&mut self, i: &[Vec<T>], o: &mut [Vec<T>], m: Option<&[bool]>) -> ResampleResult<(usize, usize)>;
    fn proc_alloc(&mut self, i: &[Vec<T>], m: Option<&[bool]>) -> ResampleResult<Vec<Vec<T>>>;
    fn partial_pib(&mut self, i: Option<&[Vec<T>]>, o: &mut [Vec<T>], m: Option<&[bool]>) -> ResampleResult<(usize, usize)>;
    fn partial_alloc(&mut self, i: Option<&[Vec<T>]>, m: Option<&[bool]>) -> ResampleResult<Vec<Vec<T>>>;
    fn in_next(&self) -> usize;
    fn in_max(&self) -> usize;
    fn out_next(&self) -> usize;
    fn out_max(&self) -> usize;
    fn delay(&self) -> usize;
    fn channels(&self) -> usize;
    fn set_ratio(&mut self, r: f64, ramp: bool) -> ResampleResult<()>;
    fn set_rel(&mut self, r: f64, ramp: bool) -> ResampleResult<()>;
    fn set_chunk(&mut self, c: usize) -> ResampleResult<()>;
    fn rst(&mut self);
    fn in_alloc(&self, filled: bool) -> Vec<Vec<T>>;
    fn out_alloc(&self, filled: bool) -> Vec<Vec<T>>;
    fn getters(&self) -> Getters {
        Getters {
            in_next: self.in_next(),
            in_max: self.in_max(),
            out_next: self.out_next(),
            out_max: self.out_max(),
            delay: self.delay(),
            channels: self.channels(),
        }
    }
}

/// A concrete resampler used directly through the `Resampler` trait.
pub struct Direct<R>(pub R);

impl<T: Sample, R: Resampler<T>> DynRes<T> for Direct<R> {
    fn pib(&mut self, i: &[Vec<T>], o: &mut [Vec<T>], m: Option<&[bool]>) -> ResampleResult<(usize, usize)> {
        self.0.process_into_buffer(i, o, m)
    }
    fn proc_alloc(&mut self, i: &[Vec<T>], m: Option<&[bool]>) -> ResampleResult<Vec<Vec<T>>> {
        self.0.process(i, m)
    }
    fn partial_pib(&mut self, i: Option<&[Vec<T>]>, o: &mut [Vec<T>], m: Option<&[bool]>) -> ResampleResult<(usize, usize)> {
        self.0.process_partial_into_buffer(i, o, m)
    }
    fn partial_alloc(&mut self, i: Option<&[Vec<T>]>, m: Option<&[bool]>) -> ResampleResult<Vec<Vec<T>>> {
        self.0.process_partial(i, m)
    }
    fn in_next(&self) -> usize {
        self.0.input_frames_next()
    }
    fn in_max(&self) -> usize {
        self.0.input_frames_max()
    }
    fn out_next(&self) -> usize {
        self.0.output_frames_next()
    }
    fn out_max(&self) -> usize {
        self.0.output_frames_max()
    }
    fn delay(&self) -> usize {
        self.0.output_delay()
    }
    fn channels(&self) -> usize {
        self.0.nbr_channels()
    }
    fn set_ratio(&mut self, r: f64, ramp: bool) -> ResampleResult<()> {
        self.0.set_resample_ratio(r, ramp)
    }
    fn set_rel(&mut self, r: f64, ramp: bool) -> ResampleResult<()> {
        self.0.set_resample_ratio_relative(r, ramp)
    }
    fn set_chunk(&mut self, c: usize) -> ResampleResult<()> {
        self.0.set_chunk_size(c)
    }
    fn rst(&mut self) {
        self.0.reset()
    }
    fn in_alloc(&self, filled: bool) -> Vec<Vec<T>> {
        self.0.input_buffer_allocate(filled)
    }
    fn out_alloc(&self, filled: bool) -> Vec<Vec<T>> {
        self.0.output_buffer_allocate(filled)
    }
}

/// Structural (allocation-free) classification of a ResampleError.
#[derive(Clone, Debug, PartialEq, serde::Serialize, serde::Deserialize)]
pub enum ErrKind {
    RatioOutOfBounds,
    SyncNotAdjustable,
    WrongIn { expected: usize, actual: usize },
    WrongOut { expected: usize, actual: usize },
    WrongMask { expected: usize, actual: usize },
    ShortIn { channel: usize, expected: usize, actual: usize },
    ShortOut { channel: usize, expected: usize, actual: usize },
    InvalidChunk { max: usize, requested: usize },
    ChunkNotAdjustable,
}

pub fn classify(e: &rubato::ResampleError) -> ErrKind {
    use rubato::ResampleError as E;
    match e {
        E::RatioOutOfBounds { .. } => ErrKind::RatioOutOfBounds,
        E::SyncNotAdjustable => ErrKind::SyncNotAdjustable,
        E::WrongNumberOfInputChannels { expected, actual } => ErrKind::WrongIn { expected: *expected, actual: *actual },
        E::WrongNumberOfOutputChannels { expected, actual } => ErrKind::WrongOut { expected: *expected, actual: *actual },
        E::WrongNumberOfMaskChannels { expected, actual } => ErrKind::WrongMask { expected: *expected, actual: *actual },
        E::InsufficientInputBufferSize { channel, expected, actual } => ErrKind::ShortIn { channel: *channel, expected: *expected, actual: *actual },
        E::InsufficientOutputBufferSize { channel, expected, actual } => ErrKind::ShortOut { channel: *channel, expected: *expected, actual: *actual },
        E::InvalidChunkSize { max, requested } => ErrKind::InvalidChunk { max: *max, requested: *requested },
        E::ChunkSizeNotAdjustable => ErrKind::ChunkNotAdjustable,
    }
}

/// A resampler reached through the object-safe `VecResampler` wrapper trait (C16). The wrapper
/// trait has no reset / set_chunk_size; histories driven through it do not contain those ops.
pub struct ViaVec<T>(pub Box<dyn rubato::VecResampler<T>>);

impl<T: Sample> DynRes<T> for ViaVec<T> {
    fn pib(&mut self, i: &[Vec<T>], o: &mut [Vec<T>], m: Option<&[bool]>) -> ResampleResult<(usize, usize)> {
        self.0.process_into_buffer(i, o, m)
    }
    fn proc_alloc(&mut self, i: &[Vec<T>], m: Option<&[bool]>) -> ResampleResult<Vec<Vec<T>>> {
        self.0.process(i, m)
    }
    fn partial_pib(&mut self, i: Option<&[Vec<T>]>, o: &mut [Vec<T>], m: Option<&[bool]>) -> ResampleResult<(usize, usize)> {
        self.0.process_partial_into_buffer(i, o, m)
    }
    fn partial_alloc(&mut self, i: Option<&[Vec<T>]>, m: Option<&[bool]>) -> ResampleResult<Vec<Vec<T>>> {
        self.0.process_partial(i, m)
    }
    fn in_next(&self) -> usize {
        self.0.input_frames_next()
    }
    fn in_max(&self) -> usize {
        self.0.input_frames_max()
    }
    fn out_next(&self) -> usize {
        self.0.output_frames_next()
    }
    fn out_max(&self) -> usize {
        self.0.output_frames_max()
    }
    fn delay(&self) -> usize {
        self.0.output_delay()
    }
    fn channels(&self) -> usize {
        self.0.nbr_channels()
    }
    fn set_ratio(&mut self, r: f64, ramp: bool) -> ResampleResult<()> {
        self.0.set_resample_ratio(r, ramp)
    }
    fn set_rel(&mut self, r: f64, ramp: bool) -> ResampleResult<()> {
        self.0.set_resample_ratio_relative(r, ramp)
    }
    fn set_chunk(&mut self, _c: usize) -> ResampleResult<()> {
        unreachable!("VecResampler has no set_chunk_size")
    }
    fn rst(&mut self) {
        unreachable!("VecResampler has no reset")
    }
    fn in_alloc(&self, filled: bool) -> Vec<Vec<T>> {
        self.0.input_buffer_allocate(filled)
    }
    fn out_alloc(&self, filled: bool) -> Vec<Vec<T>> {
        self.0.output_buffer_allocate(filled)
    }
}
