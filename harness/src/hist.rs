//! Call histories: operations, the interpreter that executes them against a real resampler,
//! and the trace it records (getters before/after, results, sentinel-checked outputs,
//! allocation deltas). Oracles are post-hoc predicates over traces.
use crate::alloc;
use crate::cfg::{build, Config, Kind, ProbeStat};
use crate::dynres::{classify, DynRes, ErrKind, Getters, SampleX};
use crate::model::FiModel;
use crate::signal::Signal;
use proptest::prelude::*;
use serde::{Deserialize, Serialize};
use std::sync::atomic::Ordering;
use std::sync::Arc;

#[derive(Clone, Copy, Debug, Serialize, Deserialize, PartialEq, Eq)]
pub enum Path {
    Pib,
    Alloc,
}

#[derive(Clone, Debug, Serialize, Deserialize, PartialEq)]
pub enum Op {
    Process { path: Path, slack_in: u8, slack_out: u8, mask: Option<u8> },
    /// frac None => process_partial(None); Some(f) => 1 + f*(need-2)/65535 frames (1..need-1)
    Partial { path: Path, frac: Option<u16>, slack_out: u8, mask: Option<u8> },
    /// core-path equivalent of Partial: process_into_buffer on the same real frames zero-padded to the need
    Padded { frac: Option<u16>, slack_out: u8, mask: Option<u8> },
    /// proposal: relative ratio max_rel^pos, pos in [-1,1]; mapped through the benign envelope for fixed-input kinds
    SetRatio { pos: f64, relative: bool, ramp: bool },
    /// literal value, bypasses the envelope (known-finding replays)
    SetRatioRaw { value: f64, relative: bool, ramp: bool },
    /// new size 1 + frac*(max-1)/65535
    SetChunk { frac: u16 },
    SetChunkRaw { size: usize },
    Reset,
    /// process_into_buffer with valid input and every output channel 1 + cut frames too short (at least empty):
    /// must be rejected without touching anything; recorded like a rejected control call (C09 measures it)
    ShortOut { cut: u8 },
}

impl Op {
    pub fn is_call(&self) -> bool {
        matches!(self, Op::Process { .. } | Op::Partial { .. } | Op::Padded { .. })
    }
    pub fn is_state_change(&self) -> bool {
        matches!(self, Op::SetRatio { .. } | Op::SetRatioRaw { .. } | Op::SetChunk { .. } | Op::SetChunkRaw { .. } | Op::Reset | Op::Partial { .. } | Op::Padded { .. })
    }
}

#[derive(Clone, Debug, PartialEq)]
pub enum StepRes {
    Call(Result<(usize, usize), ErrKind>),
    Set(Result<(), ErrKind>),
    Reset,
}

#[derive(Clone, Debug)]
pub struct Step<T> {
    pub op: usize,
    pub path: Path,
    pub partial: bool,
    pub before: Getters,
    pub after: Getters,
    pub res: StepRes,
    /// per channel: 1 + highest index whose sentinel was overwritten (into-buffer paths), or returned length (allocating paths)
    pub written: Vec<usize>,
    pub out: Vec<Vec<T>>,
    pub alloc: u64,
    /// allocator calls during the six getters read after the operation
    pub alloc_getters: u64,
    pub mask: Vec<bool>,
    pub masked_call: bool,
    pub inactive_touched: bool,
    /// real input frames handed over per active channel
    pub supplied: usize,
    pub out_len_given: usize,
    /// concrete value passed to a ratio setter (absolute ratio), ramp flag
    pub ratio_set: Option<(f64, bool)>,
    pub chunk_set: Option<usize>,
    pub in_pos: u64,
    /// false when the allocating wrapper was called with every channel masked out: the
    /// returned vectors are all empty and do not reveal the frame count
    pub count_known: bool,
}

#[derive(Clone, Debug, Default)]
pub struct ProbeSnap {
    pub calls: u64,
    pub out_of_range: u64,
    pub bad_sub: u64,
    pub noncontig: u64,
    pub log: Vec<u8>,
}

pub struct Trace<T> {
    pub built_err: Option<String>,
    pub initial: Option<Getters>,
    pub steps: Vec<Step<T>>,
    pub proposals: u64,
    pub envelope_altered: u64,
    pub envelope_skipped: u64,
    pub stuck: bool,
    pub model_checked: u64,
    pub model_mismatch: u64,
    pub model_mismatch_at: Option<(usize, usize, usize)>,
    pub probe: Option<ProbeSnap>,
    pub calls: usize,
    pub total_in: u64,
    pub total_out: u64,
}

#[derive(Clone, Debug)]
pub struct HistOpts {
    /// map ratio proposals of fixed-input kinds through the benign envelope
    pub envelope: bool,
    pub record_out: bool,
    /// round the input to f32 so f32/f64 twins see the same samples
    pub quant32: bool,
    /// stop at the first Err returned by a processing call
    pub stop_on_err: bool,
}
impl Default for HistOpts {
    fn default() -> Self {
        HistOpts { envelope: true, record_out: false, quant32: false, stop_on_err: true }
    }
}

/// Real frames handed over for signal channel `c` in a partial call of nominal length `k`: odd
/// `frac` values give the channels unequal leftover lengths (the wrapper pads each channel by itself).
pub fn partial_len(k: usize, c: usize, frac: u16) -> usize {
    if frac & 1 == 1 && k > 1 {
        1 + (c * 5 + k / 2) % k
    } else {
        k
    }
}

pub fn mask_vec(bits: Option<u8>, ch: usize) -> Option<Vec<bool>> {
    bits.map(|b| (0..ch).map(|c| (b >> (c % 8)) & 1 == 1).collect())
}

fn snap(p: &Option<Arc<ProbeStat>>) -> Option<ProbeSnap> {
    p.as_ref().map(|s| ProbeSnap {
        calls: s.calls.load(Ordering::Relaxed),
        out_of_range: s.out_of_range.load(Ordering::Relaxed),
        bad_sub: s.bad_sub.load(Ordering::Relaxed),
        noncontig: s.noncontig.load(Ordering::Relaxed),
        log: std::mem::take(&mut *s.log.lock().unwrap()),
    })
}

/// Concrete ratio of a proposal, strictly inside the adjustable range.
pub fn proposal_ratio(cfg: &Config, pos: f64) -> f64 {
    let rel = cfg.max_rel.powf(pos.clamp(-1.0, 1.0));
    let lo = (1.0 / cfg.max_rel) * (1.0 + 1e-9);
    let hi = cfg.max_rel * (1.0 - 1e-9);
    let rel = if lo <= hi { rel.clamp(lo, hi) } else { 1.0 };
    cfg.ratio * rel
}

pub struct Interp<T: SampleX> {
    pub cfg: Config,
    pub res: Box<dyn DynRes<T>>,
    pub probe: Option<Arc<ProbeStat>>,
    pub model: Option<FiModel>,
    pub inbuf: Vec<Vec<T>>,
    pub outbuf: Vec<Vec<T>>,
    pub pos: u64,
    pub opts: HistOpts,
    pub cur_target: f64,
    /// signal channel feeding each resampler channel (identity unless a single-channel twin)
    pub ch_map: Vec<usize>,
}

impl<T: SampleX> Interp<T> {
    pub fn new(cfg: &Config, opts: &HistOpts) -> Result<Interp<T>, String> {
        let b = build::<T>(cfg)?;
        let inbuf = b.res.in_alloc(true);
        let outbuf = b.res.out_alloc(true);
        Ok(Interp { cfg: cfg.clone(), res: b.res, probe: b.probe, model: if opts.envelope { FiModel::new(cfg) } else { None }, inbuf, outbuf, pos: 0, opts: opts.clone(), cur_target: cfg.ratio, ch_map: (0..cfg.channels).collect() })
    }

    /// wrap an already constructed resampler (e.g. one reached through Box<dyn VecResampler>)
    pub fn from_res(cfg: &Config, opts: &HistOpts, res: Box<dyn DynRes<T>>) -> Interp<T> {
        let inbuf = res.in_alloc(true);
        let outbuf = res.out_alloc(true);
        Interp { cfg: cfg.clone(), res, probe: None, model: if opts.envelope { FiModel::new(cfg) } else { None }, inbuf, outbuf, pos: 0, opts: opts.clone(), cur_target: cfg.ratio, ch_map: (0..cfg.channels).collect() }
    }

    fn sample(&self, sig: &Signal, ch: usize, n: u64) -> T {
        let ch = self.ch_map[ch];
        T::of64(if self.opts.quant32 { sig.value32(ch, n) } else { sig.value(ch, n) })
    }

    /// Execute one op; returns None when the op was skipped (envelope) or the history is stuck.
    pub fn step(&mut self, i: usize, op: &Op, sig: &Signal, tr: &mut Trace<T>) -> Option<()> {
        let ch = self.cfg.channels;
        match op {
            Op::Process { path, slack_in, slack_out, mask } => {
                if let Some(m) = &self.model {
                    if !m.benign() {
                        tr.stuck = true;
                        return None;
                    }
                }
                let before = self.res.getters();
                let need = before.in_next;
                let mv = mask_vec(*mask, ch);
                let active = |c: usize| mv.as_ref().map(|m| m[c]).unwrap_or(true);
                for c in 0..ch {
                    if active(c) {
                        let n = need + *slack_in as usize;
                        let mut v = std::mem::take(&mut self.inbuf[c]);
                        v.clear();
                        for k in 0..n {
                            v.push(self.sample(sig, c, self.pos + k as u64));
                        }
                        self.inbuf[c] = v;
                    } else {
                        // a masked channel's input is ignored: empty, or (every third time) a short placeholder
                        self.inbuf[c].clear();
                        if (i + c) % 3 == 1 {
                            self.inbuf[c].push(T::of64(0.5));
                        }
                    }
                }
                let pred = self.model.as_ref().map(|m| m.predict());
                let st = self.call(i, *path, false, before, mv, *slack_out, None, need, tr);
                if let StepRes::Call(Ok((_, no))) = &st {
                    self.pos += need as u64;
                    let known = tr.steps.last().map(|s| s.count_known).unwrap_or(true);
                    if let (Some(m), Some(p)) = (self.model.as_mut(), pred) {
                        if known {
                            tr.model_checked += 1;
                        }
                        if known && p.n != *no {
                            tr.model_mismatch += 1;
                            if tr.model_mismatch_at.is_none() {
                                tr.model_mismatch_at = Some((i, p.n, *no));
                            }
                        }
                        m.after_process(&p);
                    }
                }
                Some(())
            }
            Op::Partial { path, frac, slack_out, mask } => {
                if let Some(m) = &self.model {
                    if !m.benign() {
                        tr.stuck = true;
                        return None;
                    }
                }
                let before = self.res.getters();
                let need = before.in_next;
                let mv = mask_vec(*mask, ch);
                let active = |c: usize| mv.as_ref().map(|m| m[c]).unwrap_or(true);
                let k = match frac {
                    Some(f) if need >= 2 => Some(1 + ((*f as usize) * (need - 2)) / 65535),
                    _ => None,
                };
                if let Some(k) = k {
                    for c in 0..ch {
                        let mut v = std::mem::take(&mut self.inbuf[c]);
                        v.clear();
                        if active(c) {
                            for j in 0..partial_len(k, self.ch_map[c], frac.unwrap_or(0)) {
                                v.push(self.sample(sig, c, self.pos + j as u64));
                            }
                        }
                        self.inbuf[c] = v;
                    }
                }
                let pred = self.model.as_ref().map(|m| m.predict());
                let st = self.call(i, *path, true, before, mv, *slack_out, Some(k), k.unwrap_or(0), tr);
                if let StepRes::Call(Ok((_, no))) = &st {
                    self.pos += k.unwrap_or(0) as u64;
                    let known = tr.steps.last().map(|s| s.count_known).unwrap_or(true);
                    if let (Some(m), Some(p)) = (self.model.as_mut(), pred) {
                        if known {
                            tr.model_checked += 1;
                        }
                        if known && p.n != *no {
                            tr.model_mismatch += 1;
                            if tr.model_mismatch_at.is_none() {
                                tr.model_mismatch_at = Some((i, p.n, *no));
                            }
                        }
                        m.after_process(&p);
                    }
                }
                Some(())
            }
            Op::Padded { frac, slack_out, mask } => {
                if let Some(m) = &self.model {
                    if !m.benign() {
                        tr.stuck = true;
                        return None;
                    }
                }
                let before = self.res.getters();
                let need = before.in_next;
                let mv = mask_vec(*mask, ch);
                let active = |c: usize| mv.as_ref().map(|m| m[c]).unwrap_or(true);
                let k = match frac {
                    Some(f) if need >= 2 => 1 + ((*f as usize) * (need - 2)) / 65535,
                    _ => 0,
                };
                for c in 0..ch {
                    let mut v = std::mem::take(&mut self.inbuf[c]);
                    v.clear();
                    if active(c) {
                        let kc = partial_len(k, self.ch_map[c], frac.unwrap_or(0)).min(k);
                        for j in 0..need {
                            v.push(if j < kc { self.sample(sig, c, self.pos + j as u64) } else { T::of64(0.0) });
                        }
                    }
                    self.inbuf[c] = v;
                }
                let pred = self.model.as_ref().map(|m| m.predict());
                let st = self.call(i, Path::Pib, false, before, mv, *slack_out, None, k, tr);
                if let StepRes::Call(Ok((_, no))) = &st {
                    self.pos += k as u64;
                    if let (Some(m), Some(p)) = (self.model.as_mut(), pred) {
                        tr.model_checked += 1;
                        if p.n != *no {
                            tr.model_mismatch += 1;
                        }
                        m.after_process(&p);
                    }
                }
                Some(())
            }
            Op::SetRatio { pos, relative, ramp } => {
                if !self.cfg.kind.is_async() {
                    let before = self.res.getters();
                    let a0 = alloc::get();
                    let r = if *relative { self.res.set_rel(1.0, *ramp) } else { self.res.set_ratio(self.cfg.nominal_ratio(), *ramp) };
                    let a1 = alloc::get();
                    let after = self.res.getters();
                    tr.steps.push(self.set_step(i, before, after, StepRes::Set(r.as_ref().map(|_| ()).map_err(classify)), a1 - a0, None, None));
                    return Some(());
                }
                tr.proposals += 1;
                let want = proposal_ratio(&self.cfg, *pos);
                // literal argument for the setter and the effective ratio it produces
                let arg_of = |cand: f64| if *relative { cand / self.cfg.ratio } else { cand };
                let eff_of = |arg: f64| if *relative { self.cfg.ratio * arg } else { arg };
                let mut chosen = None;
                if let Some(m) = &self.model {
                    let from = self.cur_target;
                    for k in 0..=12 {
                        let w = 1.0 - k as f64 / 12.0;
                        let cand = from * (want / from).powf(w);
                        let arg = arg_of(cand);
                        let mut m2 = m.clone();
                        m2.set_ratio(eff_of(arg), *ramp);
                        if m2.benign() {
                            chosen = Some((arg, k));
                            break;
                        }
                    }
                    match chosen {
                        None => {
                            tr.envelope_skipped += 1;
                            return None;
                        }
                        Some((_, k)) if k > 0 => tr.envelope_altered += 1,
                        _ => {}
                    }
                } else {
                    chosen = Some((arg_of(want), 0));
                }
                let (arg, _) = chosen.unwrap();
                self.do_set_ratio(i, arg, *relative, *ramp, tr);
                Some(())
            }
            Op::SetRatioRaw { value, relative, ramp } => {
                self.do_set_ratio(i, *value, *relative, *ramp, tr);
                Some(())
            }
            Op::SetChunk { frac } => {
                let max = self.cfg.chunk;
                let size = 1 + ((*frac as usize) * (max - 1)) / 65535;
                self.do_set_chunk(i, size, tr);
                Some(())
            }
            Op::SetChunkRaw { size } => {
                self.do_set_chunk(i, *size, tr);
                Some(())
            }
            Op::ShortOut { cut } => {
                let before = self.res.getters();
                if before.out_next == 0 {
                    return Some(());
                }
                let need = before.in_next;
                for c in 0..ch {
                    let mut v = std::mem::take(&mut self.inbuf[c]);
                    v.clear();
                    for k in 0..need {
                        v.push(self.sample(sig, c, self.pos + k as u64));
                    }
                    self.inbuf[c] = v;
                }
                let out_len = before.out_next - 1 - (*cut as usize).min(before.out_next - 1);
                let sent = T::sentinel();
                for c in 0..ch {
                    let v = &mut self.outbuf[c];
                    v.clear();
                    v.resize(out_len, sent);
                }
                let a0 = alloc::get();
                let r = self.res.pib(&self.inbuf, &mut self.outbuf, None);
                let a1 = alloc::get();
                let after = self.res.getters();
                match r {
                    Err(e) => tr.steps.push(self.set_step(i, before, after, StepRes::Set(Err(classify(&e))), a1 - a0, None, None)),
                    Ok(_) => {
                        // accepted although too short (C13's clause): the stream position is unknown from here on
                        tr.steps.push(self.set_step(i, before, after, StepRes::Set(Ok(())), a1 - a0, None, None));
                        tr.stuck = true;
                        return None;
                    }
                }
                Some(())
            }
            Op::Reset => {
                let before = self.res.getters();
                let a0 = alloc::get();
                self.res.rst();
                let a1 = alloc::get();
                let after = self.res.getters();
                if let Some(m) = self.model.as_mut() {
                    m.reset();
                }
                self.cur_target = self.cfg.ratio;
                tr.steps.push(self.set_step(i, before, after, StepRes::Reset, a1 - a0, None, None));
                Some(())
            }
        }
    }

    fn set_step(&self, i: usize, before: Getters, after: Getters, res: StepRes, alloc: u64, ratio_set: Option<(f64, bool)>, chunk_set: Option<usize>) -> Step<T> {
        Step { op: i, path: Path::Pib, partial: false, before, after, res, written: vec![], out: vec![], alloc, alloc_getters: 0, mask: vec![], masked_call: false, inactive_touched: false, supplied: 0, out_len_given: 0, ratio_set, chunk_set, in_pos: self.pos, count_known: true }
    }

    /// `arg` is the literal argument handed to the setter (relative factor or absolute ratio)
    fn do_set_ratio(&mut self, i: usize, arg: f64, relative: bool, ramp: bool, tr: &mut Trace<T>) {
        let before = self.res.getters();
        let a0 = alloc::get();
        let r = if relative { self.res.set_rel(arg, ramp) } else { self.res.set_ratio(arg, ramp) };
        let a1 = alloc::get();
        let after = self.res.getters();
        let eff = if relative { self.cfg.ratio * arg } else { arg };
        if r.is_ok() {
            if let Some(m) = self.model.as_mut() {
                m.set_ratio(eff, ramp);
            }
            self.cur_target = eff;
        }
        tr.steps.push(self.set_step(i, before, after, StepRes::Set(r.as_ref().map(|_| ()).map_err(classify)), a1 - a0, Some((eff, ramp)), None));
    }

    fn do_set_chunk(&mut self, i: usize, size: usize, tr: &mut Trace<T>) {
        let before = self.res.getters();
        let a0 = alloc::get();
        let r = self.res.set_chunk(size);
        let a1 = alloc::get();
        let after = self.res.getters();
        if r.is_ok() {
            if let Some(m) = self.model.as_mut() {
                m.set_chunk(size);
            }
        }
        tr.steps.push(self.set_step(i, before, after, StepRes::Set(r.as_ref().map(|_| ()).map_err(classify)), a1 - a0, None, Some(size)));
    }

    #[allow(clippy::too_many_arguments)]
    fn call(&mut self, i: usize, path: Path, partial: bool, before: Getters, mv: Option<Vec<bool>>, slack_out: u8, partial_k: Option<Option<usize>>, supplied: usize, tr: &mut Trace<T>) -> StepRes {
        let ch = self.cfg.channels;
        let active = |c: usize| mv.as_ref().map(|m| m[c]).unwrap_or(true);
        let out_len = before.out_next + slack_out as usize;
        let sent = T::sentinel();
        if path == Path::Pib {
            for c in 0..ch {
                let v = &mut self.outbuf[c];
                v.clear();
                // a masked channel's output buffer is ignored: full length, or (every third time) a one-frame placeholder
                let len = if !active(c) && (i + c) % 3 == 2 { out_len.min(1) } else { out_len };
                v.resize(len, sent);
            }
        }
        let mref = mv.as_deref();
        let (res, written, out, alloc_d, inactive_touched);
        let count_known = path == Path::Pib || (0..ch).any(active);
        match path {
            Path::Pib => {
                let a0 = alloc::get();
                let r = match partial_k {
                    None => self.res.pib(&self.inbuf, &mut self.outbuf, mref),
                    Some(None) => self.res.partial_pib(None, &mut self.outbuf, mref),
                    Some(Some(_)) => self.res.partial_pib(Some(&self.inbuf), &mut self.outbuf, mref),
                };
                let a1 = alloc::get();
                alloc_d = a1 - a0;
                let mut w = vec![0usize; ch];
                let mut touched = false;
                for c in 0..ch {
                    let hi = self.outbuf[c].iter().rposition(|v| !v.is_sentinel()).map(|p| p + 1).unwrap_or(0);
                    w[c] = hi;
                    if !active(c) && hi > 0 {
                        touched = true;
                    }
                }
                inactive_touched = touched;
                written = w;
                out = match (&r, self.opts.record_out) {
                    (Ok((_, no)), true) => (0..ch).map(|c| if active(c) { self.outbuf[c][..(*no).min(self.outbuf[c].len())].to_vec() } else { vec![] }).collect(),
                    _ => vec![],
                };
                res = StepRes::Call(r.as_ref().map(|x| *x).map_err(classify));
            }
            Path::Alloc => {
                let a0 = alloc::get();
                let r = match partial_k {
                    None => self.res.proc_alloc(&self.inbuf, mref),
                    Some(None) => self.res.partial_alloc(None, mref),
                    Some(Some(_)) => self.res.partial_alloc(Some(&self.inbuf), mref),
                };
                let a1 = alloc::get();
                alloc_d = a1 - a0;
                inactive_touched = false;
                match r {
                    Ok(v) => {
                        written = v.iter().map(|c| c.len()).collect();
                        let no = (0..ch).filter(|c| active(*c)).map(|c| v[c].len()).next().unwrap_or(0);
                        res = StepRes::Call(Ok((before.in_next, no)));
                        out = if self.opts.record_out { v } else { vec![] };
                    }
                    Err(e) => {
                        written = vec![];
                        out = vec![];
                        res = StepRes::Call(Err(classify(&e)));
                    }
                }
            }
        }
        let g0 = alloc::get();
        let after = self.res.getters();
        let alloc_getters = alloc::get() - g0;
        if let StepRes::Call(Ok((ni, no))) = &res {
            tr.total_in += *ni as u64;
            if count_known {
                tr.total_out += *no as u64;
            }
        }
        tr.calls += 1;
        tr.steps.push(Step {
            op: i,
            path,
            partial,
            before,
            after,
            res: res.clone(),
            written,
            out,
            alloc: alloc_d,
            alloc_getters,
            mask: (0..ch).map(active).collect(),
            masked_call: mv.is_some(),
            inactive_touched,
            supplied,
            out_len_given: out_len,
            ratio_set: None,
            chunk_set: None,
            in_pos: self.pos,
            count_known,
        });
        res
    }
}

pub fn exec_history<T: SampleX>(cfg: &Config, sig: &Signal, ops: &[Op], opts: &HistOpts) -> Trace<T> {
    exec_history_with(cfg, sig, ops, opts, false)
}

/// `via_vec`: the instance is driven through `Box<dyn VecResampler>` (plain constructor, dispatch kernel); reset and
/// set_chunk_size are not part of that trait and are left out of the history
pub fn exec_history_with<T: SampleX>(cfg: &Config, sig: &Signal, ops: &[Op], opts: &HistOpts, via_vec: bool) -> Trace<T> {
    let mut tr = Trace {
        built_err: None,
        initial: None,
        steps: vec![],
        proposals: 0,
        envelope_altered: 0,
        envelope_skipped: 0,
        stuck: false,
        model_checked: 0,
        model_mismatch: 0,
        model_mismatch_at: None,
        probe: None,
        calls: 0,
        total_in: 0,
        total_out: 0,
    };
    let built = if via_vec { crate::cfg::build_vec::<T>(cfg).map(|b| Interp::from_res(cfg, opts, Box::new(crate::dynres::ViaVec(b)))) } else { Interp::<T>::new(cfg, opts) };
    let mut it = match built {
        Ok(i) => i,
        Err(e) => {
            tr.built_err = Some(e);
            return tr;
        }
    };
    tr.initial = Some(it.res.getters());
    for (i, op) in ops.iter().enumerate() {
        if via_vec && matches!(op, Op::Reset | Op::SetChunk { .. } | Op::SetChunkRaw { .. }) {
            continue;
        }
        let r = it.step(i, op, sig, &mut tr);
        if tr.stuck {
            break;
        }
        if r.is_some() && opts.stop_on_err {
            if let Some(Step { res: StepRes::Call(Err(_)), .. }) = tr.steps.last() {
                break;
            }
        }
    }
    tr.probe = snap(&it.probe);
    tr
}

// ---------------------------------------------------------------------------------------------
// strategies for histories

pub fn mask_strategy() -> BoxedStrategy<Option<u8>> {
    prop_oneof![4 => Just(None), 1 => any::<u8>().prop_map(Some), 1 => Just(Some(0xffu8))].boxed()
}

#[derive(Clone, Copy, Debug)]
pub struct OpSpace {
    pub partial: bool,
    pub alloc_path: bool,
    pub ratio: bool,
    pub chunk: bool,
    pub reset: bool,
    pub masks: bool,
    /// processing calls with too short output buffers (rejected; only C09 asks for them)
    pub malformed: bool,
}
impl OpSpace {
    pub fn all() -> OpSpace {
        OpSpace { partial: true, alloc_path: true, ratio: true, chunk: true, reset: true, masks: true, malformed: false }
    }
}

pub fn op_strategy(sp: OpSpace) -> BoxedStrategy<Op> {
    let mask = if sp.masks { mask_strategy() } else { Just(None).boxed() };
    let path = if sp.alloc_path { prop_oneof![3 => Just(Path::Pib), 1 => Just(Path::Alloc)].boxed() } else { Just(Path::Pib).boxed() };
    let slack = prop_oneof![3 => Just(0u8), 1 => 0u8..=40];
    let process = (path.clone(), slack.clone(), slack.clone(), mask.clone()).prop_map(|(path, slack_in, slack_out, mask)| Op::Process { path, slack_in, slack_out, mask });
    let partial = (path, prop_oneof![1 => Just(None), 2 => any::<u16>().prop_map(Some)], slack, mask).prop_map(|(path, frac, slack_out, mask)| Op::Partial { path, frac, slack_out, mask });
    // range ends, back to exactly the original ratio, anywhere in between
    let ratio = (prop_oneof![1 => Just(-1.0f64), 1 => Just(1.0f64), 1 => Just(0.0f64), 4 => -1.0f64..=1.0], any::<bool>(), any::<bool>()).prop_map(|(pos, relative, ramp)| Op::SetRatio { pos, relative, ramp });
    let chunk = prop_oneof![1 => Just(0u16), 1 => Just(65535u16), 3 => any::<u16>()].prop_map(|frac| Op::SetChunk { frac });
    // setter calls that must be rejected (out of range / zero / too large) and leave everything unchanged
    let rejected = prop_oneof![
        (prop_oneof![Just(0.0f64), Just(-1.0f64), Just(1e-300f64), Just(1e300f64)], any::<bool>(), any::<bool>()).prop_map(|(value, relative, ramp)| Op::SetRatioRaw { value, relative, ramp }),
        prop_oneof![Just(0usize), Just(usize::MAX), Just(1usize << 40)].prop_map(|size| Op::SetChunkRaw { size }),
    ];
    let mut v: Vec<(u32, BoxedStrategy<Op>)> = vec![(10, process.boxed())];
    if sp.ratio && sp.chunk {
        v.push((1, rejected.boxed()));
    }
    if sp.partial {
        v.push((2, partial.boxed()));
    }
    if sp.ratio {
        v.push((5, ratio.boxed()));
    }
    if sp.chunk {
        v.push((2, chunk.boxed()));
    }
    if sp.reset {
        v.push((1, Just(Op::Reset).boxed()));
    }
    if sp.malformed {
        v.push((1, prop_oneof![Just(0u8), any::<u8>()].prop_map(|cut| Op::ShortOut { cut }).boxed()));
    }
    proptest::strategy::Union::new_weighted(v).boxed()
}

pub fn ops_strategy(sp: OpSpace, max_len: usize) -> BoxedStrategy<Vec<Op>> {
    // one ratio change in eight is issued twice in a row for the same target, with the ramp flag of the second call
    // drawn afresh (ramp then step, step then ramp, ...): the second call must supersede the first completely
    proptest::collection::vec((op_strategy(sp), any::<u8>()), 0..=max_len)
        .prop_map(move |v| {
            let mut out = Vec::with_capacity(v.len() + 2);
            for (op, b) in v {
                let again = match &op {
                    Op::SetRatio { pos, relative, .. } if b < 32 && out.len() + 2 <= max_len => Some(Op::SetRatio { pos: *pos, relative: *relative, ramp: b & 1 == 1 }),
                    _ => None,
                };
                if out.len() < max_len {
                    out.push(op);
                }
                if let Some(a) = again {
                    out.push(a);
                }
            }
            out
        })
        .boxed()
}

/// work estimate (multiply-adds, sample generation and copies) for one processing call of
/// this configuration at the most expensive reachable ratio
pub fn call_cost(c: &Config) -> f64 {
    let r = c.nominal_ratio();
    let mr = if c.kind.is_async() { c.max_rel } else { 1.0 };
    let (fin, fout) = match c.kind {
        Kind::FastIn | Kind::SincIn | Kind::FftIn | Kind::FftInOut => (c.chunk as f64, c.chunk as f64 * r * mr),
        _ => (c.chunk as f64 * mr / r, c.chunk as f64),
    };
    let per = match c.kind {
        Kind::FastIn | Kind::FastOut => 16.0,
        Kind::SincIn | Kind::SincOut => c.filt_len() as f64 * [4.0, 3.0, 2.0, 1.0][(c.interp % 4) as usize] * if matches!(c.kernel, crate::cfg::Kernel::RangeProbe | crate::cfg::Kernel::OddProbe) { 3.0 } else { 1.0 },
        _ => 60.0,
    };
    (fout * per + (fin + fout) * 8.0 + 200.0) * c.channels as f64
}

/// Run a constant-configuration stream through a fresh resampler until `want_out` output frames
/// exist; returns channel 0 of the concatenated output.
pub fn stream_out<T: SampleX>(cfg: &Config, sig: &Signal, want_out: usize) -> Result<Vec<T>, String> {
    stream_out_sched(cfg, sig, want_out, &[])
}

/// Same, with a cyclic set_chunk_size schedule for the sinc types: (after this many calls, new size
/// = 1 + frac*(chunk-1)/65535); entries with 0 calls in between are applied back to back.
pub fn stream_out_sched<T: SampleX>(cfg: &Config, sig: &Signal, want_out: usize, schedule: &[(u8, u16)]) -> Result<Vec<T>, String> {
    let mut b = build::<T>(cfg)?;
    let res = &mut b.res;
    let ch = cfg.channels;
    let mut out: Vec<T> = Vec::with_capacity(want_out + 4096);
    let mut inbuf: Vec<Vec<T>> = vec![Vec::new(); ch];
    let mut outbuf: Vec<Vec<T>> = res.out_alloc(true);
    let mut pos: u64 = 0;
    let mut calls = 0usize;
    let mut sched_i = 0usize;
    let mut since = 0u32;
    while out.len() < want_out && calls < 4_000_000 {
        if cfg.kind.is_sinc() && !schedule.is_empty() {
            let mut burst = 0;
            loop {
                let (after, frac) = schedule[sched_i % schedule.len()];
                if since < after as u32 || burst >= 3 {
                    break;
                }
                let size = 1 + (frac as usize * (cfg.chunk - 1)) / 65535;
                res.set_chunk(size).map_err(|e| format!("set_chunk_size({}) failed: {}", size, e))?;
                sched_i += 1;
                burst += 1;
                if schedule[sched_i % schedule.len()].0 != 0 {
                    break;
                }
            }
            if burst > 0 {
                since = 0;
            }
        }
        let need = res.in_next();
        for (c, v) in inbuf.iter_mut().enumerate() {
            v.clear();
            // a quarter of the configurations pass slices longer than required (the rest of the data, as a caller
            // that hands over `&data[pos..]` does): only the advertised number of frames may be used
            let extra = if (cfg.chunk + cfg.sinc_len + cfg.os) % 4 == 0 { res.in_max().saturating_sub(need).min(4096) } else { 0 };
            for n in 0..need + extra {
                v.push(T::of64(sig.value(c, pos + n as u64)));
            }
        }
        let on = res.out_next();
        for v in outbuf.iter_mut() {
            if v.len() < on {
                v.resize(on, T::of64(0.0));
            }
        }
        let (ni, no) = res.pib(&inbuf, &mut outbuf, None).map_err(|e| format!("process_into_buffer failed: {}", e))?;
        pos += ni as u64;
        out.extend_from_slice(&outbuf[0][..no]);
        calls += 1;
        since += 1;
    }
    Ok(out)
}
