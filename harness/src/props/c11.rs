//! C11 — channels are independent; masked-out channels are skipped and left untouched.
use crate::cfg::{build_vec, config_strategy, CfgSpace, Config};
use crate::dynres::{SampleX, ViaVec};
use crate::engine::{Aggregate, Outcome, Property, Tier};
use crate::hist::{call_cost, ops_strategy, HistOpts, Interp, Op, OpSpace, Path, StepRes};
use crate::props::c10::new_trace;
use crate::signal::Signal;
use proptest::prelude::*;
use serde::{Deserialize, Serialize};

#[derive(Clone, Debug, Serialize, Deserialize)]
pub struct Case {
    pub cfg: Config,
    pub seed: u64,
    /// constant mask for the whole stream (None: no mask)
    pub mask: Option<u8>,
    pub ops: Vec<Op>,
    /// drive the two n-channel instances through `Box<dyn VecResampler>` (the single-channel twins stay direct);
    /// reset / set_chunk_size are not part of that trait and are left out of such a history
    #[serde(default)]
    pub via_vec: bool,
    /// the mask is held over the first stream only: from the first reset() on the masked instance is called
    /// without a mask, like the unmasked one, and must behave like it on every channel
    #[serde(default)]
    pub unmask_after_reset: bool,
}

pub struct C11;

fn with_mask(op: &Op, m: Option<u8>) -> Op {
    match op {
        Op::Process { path, slack_in, slack_out, .. } => Op::Process { path: *path, slack_in: *slack_in, slack_out: *slack_out, mask: m },
        Op::Partial { path, frac, slack_out, .. } => Op::Partial { path: *path, frac: *frac, slack_out: *slack_out, mask: m },
        o => o.clone(),
    }
}

fn run_t<T: SampleX>(c0: &Case) -> Outcome {
    let mut o = Outcome::default();
    let (mut cfg, excl) = c0.cfg.sanitized();
    if c0.via_vec {
        // the boxed resampler comes from the plain constructor: the twins must use the same kernel
        cfg.kernel = crate::cfg::Kernel::Dispatch;
    }
    for l in excl {
        o.class(l);
    }
    let kind = cfg.kind;
    let n = cfg.channels;
    o.class(format!("kind:{}", kind.name()));
    o.class(format!("channels:{}", n));
    let opts = HistOpts { envelope: true, record_out: true, quant32: false, stop_on_err: true };
    let sig = Signal::Noise { seed: c0.seed, amp: 1.0 };
    let mask: Option<Vec<bool>> = c0.mask.map(|b| (0..n).map(|c| (b >> (c % 8)) & 1 == 1).collect());
    let active = |c: usize| mask.as_ref().map(|m| m[c]).unwrap_or(true);
    let n_inactive = (0..n).filter(|c| !active(*c)).count();
    if mask.is_some() {
        o.class(if n_inactive == n { "mask:all-false" } else if n_inactive == 0 { "mask:all-true" } else { "mask:mixed" });
    }
    let mut single_cfg = cfg.clone();
    single_cfg.channels = 1;
    // u: n-channel, no mask; a: n-channel with the constant mask; s[c]: single-channel twins
    let mk = |c: &Config| Interp::<T>::new(c, &opts);
    let mkn = |c: &Config| if c0.via_vec { build_vec::<T>(c).map(|b| Interp::from_res(c, &opts, Box::new(ViaVec(b)))) } else { Interp::<T>::new(c, &opts) };
    if c0.via_vec {
        o.class("n-channel instances through Box<dyn VecResampler>");
    }
    let (mut u, mut a) = match (mkn(&cfg), mkn(&cfg)) {
        (Ok(u), Ok(a)) => (u, a),
        _ => {
            o.fail(format!("construct-rejected:{}", kind.name()), "constructor rejected a valid configuration");
            return o;
        }
    };
    let mut singles: Vec<Interp<T>> = vec![];
    for c in 0..n {
        let mut s = match mk(&single_cfg) {
            Ok(s) => s,
            Err(e) => {
                o.fail(format!("construct-rejected:{}", kind.name()), e);
                return o;
            }
        };
        s.ch_map = vec![c];
        singles.push(s);
    }
    let (mut tu, mut ta) = (new_trace::<T>(), new_trace::<T>());
    let mut ts: Vec<_> = (0..n).map(|_| new_trace::<T>()).collect();
    let mut compared = 0u64;
    let mut unmasked = false;
    for (i, op0) in c0.ops.iter().enumerate() {
        if c0.via_vec && matches!(op0, Op::Reset | Op::SetChunk { .. } | Op::SetChunkRaw { .. }) {
            continue;
        }
        let (nu, na) = (tu.steps.len(), ta.steps.len());
        u.step(i, &with_mask(op0, None), &sig, &mut tu);
        a.step(i, &with_mask(op0, if unmasked { None } else { c0.mask }), &sig, &mut ta);
        if c0.unmask_after_reset && c0.mask.is_some() && matches!(op0, Op::Reset) && !unmasked {
            unmasked = true;
            o.class("mask dropped after reset");
        }
        let active = |c: usize| unmasked || active(c);
        let mut single_new = vec![];
        for c in 0..n {
            let n0 = ts[c].steps.len();
            singles[c].step(i, &with_mask(op0, None), &sig, &mut ts[c]);
            single_new.push(ts[c].steps.len() > n0);
        }
        let stuck = [tu.stuck, ta.stuck].iter().chain(ts.iter().map(|t| &t.stuck)).filter(|s| **s).count();
        if stuck != 0 && stuck != n + 2 {
            o.fail(format!("diverged:{}", kind.name()), "envelope state differs between the instances");
            return o;
        }
        if tu.stuck {
            break;
        }
        let new_u = tu.steps.len() > nu;
        if new_u != (ta.steps.len() > na) || single_new.iter().any(|s| *s != new_u) {
            o.fail(format!("diverged:{}", kind.name()), "one instance skipped an operation");
            return o;
        }
        if !new_u {
            continue;
        }
        let su = tu.steps.last().unwrap();
        let sa = ta.steps.last().unwrap();
        // getters (apart from the channel count) and results must agree everywhere
        let strip = |g: crate::dynres::Getters| (g.in_next, g.in_max, g.out_next, g.out_max, g.delay);
        if strip(su.before) != strip(sa.before) || strip(su.after) != strip(sa.after) {
            o.fail(format!("mask-changes-getters:{}", kind.name()), format!("op {}: getters with mask {:?}->{:?}, without {:?}->{:?}", i, sa.before, sa.after, su.before, su.after));
            return o;
        }
        let counts_known = sa.count_known && su.count_known;
        if counts_known && sa.res != su.res {
            o.fail(format!("mask-changes-counts:{}", kind.name()), format!("op {}: with mask {:?}, without {:?}", i, sa.res, su.res));
            return o;
        }
        if !counts_known {
            // only Ok/Err class can be compared
            if matches!(sa.res, StepRes::Call(Ok(_))) != matches!(su.res, StepRes::Call(Ok(_))) {
                o.fail(format!("mask-changes-counts:{}", kind.name()), format!("op {}: with mask {:?}, without {:?}", i, sa.res, su.res));
                return o;
            }
        }
        if sa.inactive_touched {
            o.fail(format!("masked-channel-written:{}", kind.name()), format!("op {}: an inactive channel's output buffer was written (frames written per channel {:?}, mask {:?})", i, sa.written, sa.mask));
            return o;
        }
        if let StepRes::Call(Ok(_)) = su.res {
            for c in 0..n {
                let ss = ts[c].steps.last().unwrap();
                if strip(ss.before) != strip(su.before) || strip(ss.after) != strip(su.after) || ss.res != su.res && su.count_known {
                    o.fail(format!("single-twin-counts:{}", kind.name()), format!("op {} channel {}: single-channel twin {:?} {:?}, multi-channel {:?} {:?}", i, c, ss.before, ss.res, su.before, su.res));
                    return o;
                }
                let eq = |x: &[T], y: &[T]| x.len() == y.len() && x.iter().zip(y).all(|(p, q)| p.bits() == q.bits());
                if !eq(&su.out[c], &ss.out[0]) {
                    let at = su.out[c].iter().zip(&ss.out[0]).position(|(p, q)| p.bits() != q.bits());
                    o.fail(format!("channel-differs-from-single:{}", kind.name()), format!("op {} channel {}: {}-channel instance differs from a single-channel twin (lengths {} / {}, first difference at {:?})", i, c, n, su.out[c].len(), ss.out[0].len(), at));
                    return o;
                }
                if active(c) && sa.count_known {
                    if !eq(&sa.out[c], &su.out[c]) {
                        let at = sa.out[c].iter().zip(&su.out[c]).position(|(p, q)| p.bits() != q.bits());
                        o.fail(format!("mask-changes-active-channel:{}", kind.name()), format!("op {} channel {}: output with the mask differs from the output without (first difference at {:?})", i, c, at));
                        return o;
                    }
                } else if !active(c) && sa.path == Path::Alloc && !sa.out[c].is_empty() {
                    o.fail(format!("masked-not-empty:{}", kind.name()), format!("op {} channel {}: process() returned {} frames for a masked channel", i, c, sa.out[c].len()));
                    return o;
                }
                compared += 1;
            }
        }
        if matches!(su.res, StepRes::Call(Err(_))) {
            break;
        }
    }
    o.count("channel_calls_compared", compared);
    o.nontrivial = n >= 2 && compared >= 2 && (mask.is_none() || n_inactive >= 1);
    o
}

impl Property for C11 {
    type Case = Case;
    fn id(&self) -> &'static str {
        "C11"
    }
    fn rule(&self) -> String {
        "cases = configuration with 1..8 channels, independent noise per channel, a constant mask (none / random / all-true / all-false; inactive inputs passed as empty slices, inactive outputs sentinel-filled), a history of documented operations (a quarter of the cases drive the n-channel instances through Box<dyn VecResampler>); executed on the n-channel instance without mask, on the n-channel instance with the mask, and on n single-channel twins: per channel bit-identical outputs and equal counts/getters, inactive output buffers untouched. non-trivial = >= 2 channels, >= 2 compared channel-calls, and for mask cases >= 1 inactive channel. distinct = distinct case JSON digest.".into()
    }
    fn assumptions(&self) -> Vec<String> {
        vec!["the mask is held constant over a stream, as in the statement".into()]
    }
    fn strategy(&self, tier: Tier) -> BoxedStrategy<Case> {
        let mut sp = CfgSpace::histories(tier.thorough());
        sp.max_channels = 8;
        let mask = prop_oneof![2 => Just(None), 4 => any::<u8>().prop_map(Some), 1 => Just(Some(0u8)), 1 => Just(Some(255u8))];
        (config_strategy(sp), 1usize..=8, any::<u64>(), mask, ops_strategy(OpSpace::all(), 14), prop_oneof![3 => Just(false), 1 => Just(true)], any::<bool>())
            .prop_map(|(mut cfg, ch, seed, mask, ops, via_vec, unmask_after_reset)| {
                if cfg.channels == 1 {
                    cfg.channels = ch;
                }
                let calls = ops.iter().filter(|o| o.is_call()).count().max(1) as f64;
                while call_cost(&cfg) * calls * 3.0 > 8e6 && cfg.chunk > 1 {
                    cfg.chunk = (cfg.chunk / 2).max(1);
                }
                Case { cfg, seed, mask, ops, via_vec, unmask_after_reset }
            })
            .boxed()
    }
    fn cases(&self, tier: Tier) -> u32 {
        if tier.thorough() {
            3_000_000
        } else {
            40_000
        }
    }
    fn run(&self, c: &Case) -> Outcome {
        if c.cfg.f32 {
            run_t::<f32>(c)
        } else {
            run_t::<f64>(c)
        }
    }
    fn health(&self, a: &Aggregate) -> Option<String> {
        if a.evaluations > 1000 && (a.distinct.len() as u64) * 4 < a.evaluations {
            return Some(format!("only {} of {} cases were non-trivial", a.distinct.len(), a.evaluations));
        }
        None
    }
}
