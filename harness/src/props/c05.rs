//! C05 — the output stream is independent of chunking and of the FixedIn/FixedOut/InOut variant.
use crate::cfg::{build, gcd, rate_pair_strategy, ratio_strategy, Config, Kernel, Kind};
use crate::dynres::SampleX;
use crate::engine::{Aggregate, Outcome, Property, Tier};
use crate::signal::{Signal, Tone};
use proptest::prelude::*;
use serde::{Deserialize, Serialize};

#[derive(Clone, Debug, Serialize, Deserialize)]
pub struct Run {
    /// true: fixed-output variant (FFT: see `fft_variant`)
    pub fixed_out: bool,
    /// FFT only: 0 FixedIn, 1 FixedOut, 2 FixedInOut
    pub fft_variant: u8,
    pub chunk: usize,
    /// FFT only: requested sub chunks and offsets that keep the block count k
    pub sub: usize,
    pub off: u16,
    pub extra: u16,
    /// sinc only: (after this many calls, new size = 1 + frac*(chunk-1)/65535); applied cyclically;
    /// entries with 0 calls in between are applied back to back
    pub schedule: Vec<(u8, u16)>,
    /// input buffers: 0 exactly input_frames_next() frames, 1 a few frames more, 2 always the
    /// buffer from input_buffer_allocate (input_frames_max() frames); the surplus holds the
    /// continuation of the signal and must not influence the output
    #[serde(default)]
    pub in_mode: u8,
}

#[derive(Clone, Debug, Serialize, Deserialize)]
pub struct Case {
    /// family parameters; kind is FastIn, SincIn or FftIn (family marker), chunk unused
    pub cfg: Config,
    /// FFT block count
    pub k: usize,
    pub a: Run,
    pub b: Run,
    pub tones: Vec<Tone>,
    pub noise_seed: u64,
    pub out_frames: usize,
}

pub struct C05;

fn run_cfg(c: &Case, r: &Run) -> Config {
    let mut cfg = c.cfg.clone();
    cfg.channels = 1;
    cfg.max_rel = 1.0;
    match c.cfg.kind {
        Kind::FastIn | Kind::FastOut => {
            cfg.kind = if r.fixed_out { Kind::FastOut } else { Kind::FastIn };
            cfg.chunk = r.chunk;
        }
        Kind::SincIn | Kind::SincOut => {
            cfg.kind = if r.fixed_out { Kind::SincOut } else { Kind::SincIn };
            cfg.chunk = r.chunk;
        }
        _ => {
            let g = gcd(cfg.rate_in, cfg.rate_out);
            let (min_in, min_out) = (cfg.rate_in / g, cfg.rate_out / g);
            let k = c.k.max(1);
            let sub = r.sub.max(1);
            match r.fft_variant % 3 {
                0 => {
                    cfg.kind = Kind::FftIn;
                    let per = (k - 1) * min_in + 1 + (r.off as usize % min_in);
                    cfg.chunk = per * sub + (r.extra as usize % sub);
                    cfg.sub_chunks = sub;
                }
                1 => {
                    cfg.kind = Kind::FftOut;
                    let per = (k - 1) * min_out + 1 + (r.off as usize % min_out);
                    cfg.chunk = per * sub + (r.extra as usize % sub);
                    cfg.sub_chunks = sub;
                }
                _ => {
                    cfg.kind = Kind::FftInOut;
                    cfg.chunk = (k - 1) * min_in + 1 + (r.off as usize % min_in);
                    cfg.sub_chunks = 1;
                }
            }
        }
    }
    cfg
}

struct StreamOut<T> {
    out: Vec<T>,
    calls: usize,
    chunk_changes_after_first: usize,
}

fn stream<T: SampleX>(cfg: &Config, r: &Run, sig: &Signal, want_out: usize) -> Result<StreamOut<T>, String> {
    let mut b = build::<T>(cfg)?;
    let res = &mut b.res;
    let mut out: Vec<T> = Vec::with_capacity(want_out + 4096);
    let mut inbuf: Vec<Vec<T>> = vec![Vec::new()];
    let mut outbuf: Vec<Vec<T>> = res.out_alloc(true);
    let in_max = res.in_max();
    let mut pos: u64 = 0;
    let mut calls = 0usize;
    let mut sched_i = 0usize;
    let mut since = 0u32;
    let mut changes = 0;
    let guard = 4_000_000usize;
    while out.len() < want_out && calls < guard {
        if cfg.kind.is_sinc() && !r.schedule.is_empty() {
            let mut burst = 0;
            loop {
                let (after, frac) = r.schedule[sched_i % r.schedule.len()];
                if since < after as u32 || burst >= 3 {
                    break;
                }
                let size = 1 + (frac as usize * (cfg.chunk - 1)) / 65535;
                res.set_chunk(size).map_err(|e| format!("set_chunk_size({}) failed: {}", size, e))?;
                if calls > 0 {
                    changes += 1;
                }
                sched_i += 1;
                burst += 1;
                // a following entry with 0 calls in between is applied immediately
                let next_after = r.schedule[sched_i % r.schedule.len()].0;
                if next_after != 0 {
                    since = 0;
                    break;
                }
            }
            if burst > 0 {
                since = 0;
            }
        }
        let need = res.in_next();
        let v = &mut inbuf[0];
        v.clear();
        let have = match r.in_mode % 3 {
            0 => need,
            1 => need + 1 + (calls % 7),
            _ => need.max(in_max),
        };
        for n in 0..have {
            v.push(T::of64(sig.value(0, pos + n as u64)));
        }
        let on = res.out_next();
        if outbuf[0].len() < on {
            outbuf[0].resize(on, T::of64(0.0));
        }
        let (ni, no) = res.pib(&inbuf, &mut outbuf, None).map_err(|e| format!("process_into_buffer failed: {}", e))?;
        pos += ni as u64;
        out.extend_from_slice(&outbuf[0][..no]);
        calls += 1;
        since += 1;
    }
    Ok(StreamOut { out, calls, chunk_changes_after_first: changes })
}

fn ulp(x: f64) -> f64 {
    let x = x.abs().max(1.0);
    f64::from_bits(x.to_bits() + 1) - x
}

fn run_t<T: SampleX>(c0: &Case) -> Outcome {
    let mut o = Outcome::default();
    let (base, excl) = c0.cfg.sanitized();
    for l in excl {
        o.class(l);
    }
    let c = &Case { cfg: base, ..c0.clone() };
    let (ca, cb) = (run_cfg(c, &c.a), run_cfg(c, &c.b));
    let fam = if ca.kind.is_fast() { "fast" } else if ca.kind.is_sinc() { "sinc" } else { "fft" };
    o.class(format!("family:{}", fam));
    o.class(format!("pair:{}-{}", ca.kind.name(), cb.kind.name()));
    o.class(if c.cfg.f32 { "sample:f32" } else { "sample:f64" });
    let sig = Signal::TonesNoise { tones: c.tones.clone(), seed: c.noise_seed, noise: 0.01 };
    let (sa, sb) = match (stream::<T>(&ca, &c.a, &sig, c.out_frames), stream::<T>(&cb, &c.b, &sig, c.out_frames)) {
        (Ok(a), Ok(b)) => (a, b),
        (Err(e), _) | (_, Err(e)) => {
            o.fail(format!("stream-error:{}", fam), e);
            return o;
        }
    };
    if fam == "fft" {
        // the two must resolve to the same block size (generator invariant)
        let (fa, fb) = (ca.fft_blocks(), cb.fft_blocks());
        if fa != fb {
            o.class("fft-blocks-differ(generator)");
            return o;
        }
    }
    let n = sa.out.len().min(sb.out.len());
    if std::env::var("RV_DUMP").is_ok() {
        for i in 0..n.min(12) {
            eprintln!("{:3} {:+.6e} {:+.6e}", i, sa.out[i].f64v(), sb.out[i].f64v());
        }
    }
    let peak: f64 = c.tones.iter().map(|t| t.a).sum::<f64>() + 0.01;
    let slope = 4.0 * peak;
    let ratio = ca.nominal_ratio();
    let l = ca.filt_len() as f64;
    // largest in-buffer position either run works with
    let idx_max = |cfg: &Config| -> f64 {
        let inp = if cfg.kind.fixed_in() { cfg.chunk as f64 } else { cfg.chunk as f64 / ratio + l + 2.0 };
        inp + 2.0 * l + 4.0
    };
    let u = ulp(idx_max(&ca).max(idx_max(&cb)));
    let nearest = (ca.kind.is_sinc() && ca.interp % 4 == 3) || (ca.kind.is_fast() && ca.degree % 5 == 4);
    let os = ca.os as f64;
    let t = 1.0 / ratio;
    let mut worst = 0.0f64;
    let mut ties = 0u64;
    for i in 0..n {
        let (x, y) = (sa.out[i].f64v(), sb.out[i].f64v());
        let d = (x - y).abs();
        if fam == "fft" {
            if sa.out[i].bits() != sb.out[i].bits() {
                o.fail("fft-variants-differ", format!("frame {}: {:e} vs {:e} ({} vs {}, block count k={})", i, x, y, ca.kind.name(), cb.kind.name(), c.k));
                return o;
            }
            continue;
        }
        let pos_tol = 8.0 * (i as f64 + 1.0) * u;
        let mut tol = pos_tol * slope + if c.cfg.f32 { 64.0 * f32::EPSILON as f64 * peak } else { 64.0 * f64::EPSILON * peak };
        if nearest {
            // discontinuous selection: a position within rounding of a tie may resolve differently
            let pos = -(l / 2.0) + (i as f64 + 1.0) * t;
            let tie_tol = 2.0 * pos_tol + 4.0 * ulp(pos) + 1e-12;
            let is_tie = if ca.kind.is_sinc() {
                let g = (pos - pos.floor()) * os;
                let dist = (g - g.floor() - 0.5).abs();
                dist < tie_tol * os
            } else {
                let dist = (pos - pos.round()).abs();
                dist < tie_tol
            };
            if is_tie {
                ties += 1;
                tol += if ca.kind.is_sinc() { slope / os } else { 2.0 * peak };
            }
        }
        let rel = d / tol;
        if rel > worst {
            worst = rel;
        }
        if d > tol || !d.is_finite() {
            let class = if d > 1e-4 * peak { "gross" } else { "drift" };
            o.fail(
                format!("streams-differ:{}:{}", fam, class),
                format!("frame {}: {:e} vs {:e} (|diff| {:e} > tol {:e}); a = {} chunk {} ({} calls), b = {} chunk {} ({} calls, {} mid-stream size changes), ratio {}", i, x, y, d, tol, ca.kind.name(), ca.chunk, sa.calls, cb.kind.name(), cb.chunk, sb.calls, sb.chunk_changes_after_first, ratio),
            );
            return o;
        }
    }
    o.maxi("worst_diff_over_tol", worst);
    o.maxi(&format!("worst_diff_over_tol:{}:{}{}", fam, if c.cfg.f32 { "f32" } else { "f64" }, if nearest { ":nearest" } else { "" }), worst);
    o.count("frames_compared", n as u64);
    o.count("nearest_tie_frames", ties);
    let differ = ca.kind != cb.kind || ca.chunk != cb.chunk || !c.a.schedule.is_empty() || !c.b.schedule.is_empty() || c.a.in_mode % 3 != c.b.in_mode % 3;
    o.class(format!("input-buffers:{}-{}", c.a.in_mode % 3, c.b.in_mode % 3));
    let sched_ok = (c.a.schedule.is_empty() || !ca.kind.is_sinc() || sa.chunk_changes_after_first >= 1) && (c.b.schedule.is_empty() || !cb.kind.is_sinc() || sb.chunk_changes_after_first >= 1);
    if sa.chunk_changes_after_first + sb.chunk_changes_after_first > 0 {
        o.class("mid-stream-chunk-changes");
    }
    o.nontrivial = differ && n >= 2000.min(c.out_frames) && sched_ok;
    o
}

fn run_strategy(max_chunk: usize, sched: bool) -> BoxedStrategy<Run> {
    let schedule = if sched {
        prop_oneof![2 => Just(vec![]), 1 => proptest::collection::vec((prop_oneof![2 => Just(0u8), 3 => 1u8..4], any::<u16>()), 1..6)].boxed()
    } else {
        Just(vec![]).boxed()
    };
    (any::<bool>(), 0u8..3, crate::cfg::chunk_strategy(max_chunk), 1usize..=4, any::<u16>(), any::<u16>(), schedule, 0u8..3)
        .prop_map(|(fixed_out, fft_variant, chunk, sub, off, extra, schedule, in_mode)| Run { fixed_out, fft_variant, chunk, sub, off, extra, schedule, in_mode })
        .boxed()
}

impl Property for C05 {
    type Case = Case;
    fn id(&self) -> &'static str {
        "C05"
    }
    fn rule(&self) -> String {
        "cases = one parameter set (polynomial / sinc / FFT family, f32 or f64, constant ratio), one input (1-2 tones + noise at 1 % so a lost, repeated or stale frame moves the output by >= 1e-3 of peak), two runs differing in chunk size (1..=4096, small and large mixed), in the FixedIn/FixedOut(/InOut) variant, in a mid-stream set_chunk_size schedule (sinc; also several calls back to back), or in how much longer than required the input buffers are (exact / a few frames / always input_frames_max()); the common prefix of the two concatenated outputs is compared frame by frame (FFT: bit-exact; others within the position-rounding model 8*(i+1)*ulp(idx_max)*slope). non-trivial = the two runs differ (chunk, variant or schedule), >= 2000 common frames, and a schedule performed >= 1 size change after the first call. distinct = distinct case JSON digest.".into()
    }
    fn assumptions(&self) -> Vec<String> {
        vec![
            "the ratio is constant (ratio changes are chunk-boundary events by specification, hence outside this property)".into(),
            "nearest-neighbour selection is discontinuous: frames whose position is within rounding of a tie are allowed one grid step".into(),
        ]
    }
    fn strategy(&self, tier: Tier) -> BoxedStrategy<Case> {
        let th = tier.thorough();
        let max_chunk = 4096;
        let max_l = if th { 256 } else { 128 };
        let tone = (0.001f64..0.2, 0.2f64..1.0, 0.0f64..6.28).prop_map(|(f, a, ph)| Tone { f, a, ph });
        let fam = prop_oneof![3 => Just(Kind::FastIn), 4 => Just(Kind::SincIn), 3 => Just(Kind::FftIn)];
        (
            (fam, any::<bool>(), ratio_strategy(), rate_pair_strategy(if th { 1024 } else { 320 }), 0u8..5, 8usize..=max_l, 0u8..4, prop_oneof![1 => Just(1usize), 1 => Just(2usize), 4 => 1usize..=64], 0u8..6, 0u8..5),
            (1usize..=8, run_strategy(max_chunk, true), run_strategy(max_chunk, true), proptest::collection::vec(tone, 1..=2), any::<u64>(), if th { 3000usize..20000 } else { 2500usize..5000 }),
        )
            .prop_map(move |((kind, f32, ratio, rates, degree, sinc_len, interp, os, window, kern), (k, a, b, tones, noise_seed, out_frames))| {
                let kernel = match kern {
                    0 => Kernel::Scalar,
                    1 => Kernel::Sse,
                    _ => Kernel::Dispatch,
                };
                let mut cfg = Config { kind, f32, ratio, rate_in: rates.0, rate_out: rates.1, degree, sinc_len, interp, os, window, kernel, f_cutoff: 0.9, ..Config::default() };
                // bound the work: sinc cost = frames * L * points
                let mut out_frames = out_frames;
                if kind == Kind::SincIn {
                    let pts = [4.0, 3.0, 2.0, 1.0][(interp % 4) as usize];
                    let budget = if th { 6e7 } else { 4e6 };
                    while out_frames as f64 * cfg.filt_len() as f64 * pts > budget && cfg.sinc_len > 8 {
                        cfg.sinc_len /= 2;
                    }
                }
                if kind == Kind::FftIn {
                    // keep blocks modest: k * max(min_in, min_out) <= 4096
                    let g = gcd(rates.0, rates.1);
                    let m = (rates.0 / g).max(rates.1 / g);
                    let kmax = (4096 / m).max(1);
                    let k = 1 + (k - 1) % kmax;
                    out_frames = out_frames.max(6 * k * (rates.1 / g));
                    return Case { cfg, k, a, b, tones, noise_seed, out_frames };
                }
                // a stream at a very low ratio needs many input frames per output frame; keep input <= 2^19 frames
                let max_out = ((1u64 << 19) as f64 * ratio) as usize;
                out_frames = out_frames.min(max_out.max(2100));
                Case { cfg, k, a, b, tones, noise_seed, out_frames }
            })
            .boxed()
    }
    fn cases(&self, tier: Tier) -> u32 {
        if tier.thorough() {
            150_000
        } else {
            60_000
        }
    }
    fn run(&self, c: &Case) -> Outcome {
        if c.cfg.f32 {
            run_t::<f32>(c)
        } else {
            run_t::<f64>(c)
        }
    }
    fn health(&self, a: &Aggregate) -> Option<String> {
        if a.evaluations > 500 && (a.distinct.len() as u64) * 2 < a.evaluations {
            return Some(format!("only {} of {} cases were non-trivial", a.distinct.len(), a.evaluations));
        }
        None
    }
}
