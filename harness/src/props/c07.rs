//! C07 — frame accounting: output/input frame totals track the ratio without drift.
use crate::cfg::{build, config_strategy, gcd, CfgSpace, Config, Kind};
use crate::dynres::SampleX;
use crate::engine::{Aggregate, Outcome, Property, Tier};
use crate::hist::call_cost;
use proptest::prelude::*;
use serde::{Deserialize, Serialize};

#[derive(Clone, Debug, Serialize, Deserialize)]
pub struct Case {
    pub cfg: Config,
    pub calls: u32,
    /// sinc only: (after this many calls, new size = 1 + frac*(chunk-1)/65535), applied cyclically
    pub schedule: Vec<(u16, u16)>,
    /// every k-th call is made with all channels masked off (0: never); its returned counts enter the totals
    #[serde(default)]
    pub masked_every: u16,
    /// reset() after every k-th call (0: never): a new stream starts, the totals restart with it
    #[serde(default)]
    pub reset_every: u16,
    /// before every k-th call (0: never) a call with a too short output buffer is made, which must be rejected and
    /// must not count
    #[serde(default)]
    pub reject_every: u16,
}

pub struct C07;

fn run_t<T: SampleX>(c0: &Case) -> Outcome {
    let mut o = Outcome::default();
    let (mut cfg, excl) = c0.cfg.sanitized();
    for l in excl {
        o.class(l);
    }
    cfg.max_rel = 1.0;
    cfg.channels = 1;
    let kind = cfg.kind;
    o.class(format!("kind:{}", kind.name()));
    let mut b = match build::<T>(&cfg) {
        Ok(b) => b,
        Err(e) => {
            o.fail(format!("construct-rejected:{}", kind.name()), e);
            return o;
        }
    };
    let res = &mut b.res;
    let inbuf: Vec<Vec<T>> = vec![vec![T::of64(0.125); res.in_max()]];
    let mut outbuf: Vec<Vec<T>> = res.out_alloc(true);
    let r = cfg.nominal_ratio();
    let lf = if kind.is_fast() { 8.0 } else { cfg.filt_len() as f64 };
    let bound = r * (lf + 1.0 / r + 3.0) + 3.0;
    let (mut ti, mut to): (u128, u128) = (0, 0);
    let mut worst = 0.0f64;
    let (rin, rout) = (cfg.rate_in as u128, cfg.rate_out as u128);
    let (fi, fo) = if kind.is_fft() { cfg.fft_blocks() } else { (0, 0) };
    if kind == Kind::FftInOut {
        // block sizes: in * rate_out == out * rate_in with `in` the smallest such size >= the requested chunk
        let g = gcd(cfg.rate_in, cfg.rate_out);
        let min_in = cfg.rate_in / g;
        let (ni, no) = (res.in_next(), res.out_next());
        if (ni as u128) * rout != (no as u128) * rin {
            o.fail("inout-block-ratio", format!("block sizes {} -> {} do not satisfy in*rate_out == out*rate_in for {} -> {}", ni, no, cfg.rate_in, cfg.rate_out));
            return o;
        }
        if ni < cfg.chunk || ni % min_in != 0 || ni - min_in >= cfg.chunk {
            o.fail("inout-block-not-minimal", format!("input block {} is not the smallest multiple of {} that is >= the requested chunk {}", ni, min_in, cfg.chunk));
            return o;
        }
    }
    let mut sched_i = 0usize;
    let mut since = 0u32;
    let mut done = 0u32;
    if c0.calls >= 100_000 {
        o.class("calls>=1e5");
    }
    if cfg.chunk == 1 {
        o.class("chunk=1");
    }
    if c0.masked_every > 0 {
        o.class("with all-masked calls");
    }
    if c0.reset_every > 0 {
        o.class("with resets in mid-stream");
    }
    if c0.reject_every > 0 {
        o.class("with rejected calls in between");
    }
    for call in 0..c0.calls {
        if kind.is_sinc() && !c0.schedule.is_empty() {
            let (after, frac) = c0.schedule[sched_i % c0.schedule.len()];
            if since >= after as u32 {
                let size = 1 + (frac as usize * (cfg.chunk - 1)) / 65535;
                if let Err(e) = res.set_chunk(size) {
                    o.fail(format!("set_chunk:{}", kind.name()), format!("set_chunk_size({}) failed: {}", size, e));
                    return o;
                }
                sched_i += 1;
                since = 0;
            }
        }
        let on = res.out_next();
        if outbuf[0].len() < on {
            outbuf[0].resize(on, T::of64(0.0));
        }
        if c0.reject_every > 0 && (call + 1) % c0.reject_every as u32 == 0 && on > 0 {
            let mut short: Vec<Vec<T>> = vec![vec![T::of64(0.0); on - 1]];
            if res.pib(&inbuf, &mut short, None).is_ok() {
                o.fail(format!("short-output-accepted:{}", kind.name()), format!("call {}: an output buffer of {} frames was accepted although {} are due", call, on - 1, on));
                return o;
            }
        }
        let all_off = [false];
        let mask: Option<&[bool]> = if c0.masked_every > 0 && (call + 1) % c0.masked_every as u32 == 0 { Some(&all_off) } else { None };
        let (ni, no) = match res.pib(&inbuf, &mut outbuf, mask) {
            Ok(x) => x,
            Err(e) => {
                o.fail(format!("err:{}", kind.name()), format!("call {} failed: {}", call, e));
                return o;
            }
        };
        ti += ni as u128;
        to += no as u128;
        since += 1;
        done += 1;
        let restart = c0.reset_every > 0 && (call + 1) % c0.reset_every as u32 == 0;
        if kind.is_async() {
            let d = (to as f64 - r * ti as f64).abs();
            if d / bound > worst {
                worst = d / bound;
            }
            if d > bound {
                o.fail(
                    format!("drift:{}", kind.name()),
                    format!("after call {}: consumed {} produced {}, |out - r*in| = {:.3} frames exceeds r*(L+1/r+3)+3 = {:.3} (ratio {}, chunk {})", call, ti, to, d, bound, r, cfg.chunk),
                );
                return o;
            }
        } else {
            let lhs = ti * rout;
            let rhs = to * rin;
            if lhs < rhs {
                o.fail(format!("fft-output-ahead:{}", kind.name()), format!("after call {}: in*rate_out = {} < out*rate_in = {} (more output than input accounts for)", call, lhs, rhs));
                return o;
            }
            let block = fi as u128 * rout;
            if lhs - rhs >= block {
                o.fail(format!("fft-lag:{}", kind.name()), format!("after call {}: in*rate_out - out*rate_in = {} is not below one block ({} frames in = {})", call, lhs - rhs, fi, block));
                return o;
            }
            if kind == Kind::FftInOut && lhs != rhs {
                o.fail("inout-nonzero", format!("after call {}: in*rate_out = {} != out*rate_in = {}", call, lhs, rhs));
                return o;
            }
        }
        if restart {
            res.rst();
            ti = 0;
            to = 0;
            since = 0;
        }
    }
    o.maxi(&format!("worst_drift_over_bound:{}", kind.name()), worst);
    o.count("calls", done as u64);
    let blocks = if fo > 0 { to / fo as u128 } else { 0 };
    o.nontrivial = done >= 1000 || blocks >= 100;
    o
}

impl Property for C07 {
    type Case = Case;
    fn id(&self) -> &'static str {
        "C07"
    }
    fn rule(&self) -> String {
        "cases = configuration (constant ratio / random rate pair and block size), 200..5000 calls (quick; thorough up to 10^6 calls of 1-frame chunks), optional cyclic set_chunk_size schedule for the sinc types; running totals of the returned (in,out) tuples are checked after every call against the stated constant (asynchronous) or the exact integer relations in u128 (FFT). non-trivial = >= 1000 calls or >= 100 FFT blocks. distinct = distinct case JSON digest.".into()
    }
    fn assumptions(&self) -> Vec<String> {
        vec!["the ratio is constant for the whole stream (max relative ratio 1)".into()]
    }
    fn strategy(&self, tier: Tier) -> BoxedStrategy<Case> {
        let th = tier.thorough();
        let mut sp = CfgSpace::histories(th);
        sp.max_chunk = if th { 4096 } else { 1024 };
        sp.max_fft_block = if th { 4096 } else { 512 };
        sp.probes = false;
        let sched = prop_oneof![2 => Just(vec![]), 1 => proptest::collection::vec((0u16..50, any::<u16>()), 1..6)];
        let calls = if th { prop_oneof![3 => 1000u32..20_000, 1 => 100_000u32..1_000_000].boxed() } else { prop_oneof![1 => 200u32..1000, 3 => 1000u32..5000].boxed() };
        (config_strategy(sp), calls, sched, any::<bool>(), prop_oneof![3 => Just(0u16), 1 => 1u16..=7], prop_oneof![3 => Just(0u16), 1 => 1u16..=40], prop_oneof![3 => Just(0u16), 1 => 1u16..=9])
            .prop_map(move |(mut cfg, calls, schedule, tiny, masked_every, reset_every, reject_every)| {
                cfg.max_rel = 1.0;
                cfg.channels = 1;
                if tiny {
                    cfg.chunk = 1 + cfg.chunk % 8;
                }
                let budget = if th { 3e9 } else { 4e7 };
                let mut calls = calls;
                if calls >= 100_000 {
                    cfg.chunk = 1 + cfg.chunk % 2;
                    cfg.sinc_len = cfg.sinc_len.min(64);
                }
                while call_cost(&cfg) * calls as f64 > budget && cfg.chunk > 1 {
                    cfg.chunk = (cfg.chunk / 2).max(1);
                }
                while call_cost(&cfg) * calls as f64 > budget && calls > 1000 {
                    calls /= 2;
                }
                Case { cfg, calls, schedule, masked_every, reset_every, reject_every }
            })
            .boxed()
    }
    fn cases(&self, tier: Tier) -> u32 {
        if tier.thorough() {
            60_000
        } else {
            20_000
        }
    }
    fn run(&self, c: &Case) -> Outcome {
        if c.cfg.f32 {
            run_t::<f32>(c)
        } else {
            run_t::<f64>(c)
        }
    }
    fn watchdog_s(&self, tier: Tier) -> u64 {
        if tier.thorough() {
            1800
        } else {
            300
        }
    }
    fn health(&self, a: &Aggregate) -> Option<String> {
        if a.evaluations > 200 && (a.distinct.len() as u64) * 2 < a.evaluations {
            return Some(format!("only {} of {} cases were non-trivial", a.distinct.len(), a.evaluations));
        }
        None
    }
}
