//! C08 — the polynomial resamplers reproduce polynomials up to their degree exactly, and
//! sinusoids within the classical interpolation bound.
use crate::cfg::{chunk_strategy, ratio_strategy, Config, Kind};
use crate::dynres::SampleX;
use crate::engine::{Aggregate, Outcome, Property, Tier};
use crate::hist::stream_out;
use crate::signal::{Signal, Tone};
use proptest::prelude::*;
use serde::{Deserialize, Serialize};

#[derive(Clone, Debug, Serialize, Deserialize)]
pub enum Sig {
    /// coefficients (increasing power) of a polynomial in u = n / scale; degree <= admissible degree
    Poly { coefs: Vec<f64> },
    /// single monomial u^k (basis element)
    Mono { k: u8 },
    Sine { f: f64, a: f64, ph: f64 },
    /// polynomial in v = (n - centre) / scale with a scale of a few samples, so that its finite
    /// differences up to the full degree are of order one inside the checked region |v| <= 2
    /// (coefficients in increasing power; mono >= 0 selects the single monomial v^mono)
    Local { coefs: Vec<f64>, mono: i8, scale: f64 },
}

#[derive(Clone, Debug, Serialize, Deserialize)]
pub struct Case {
    pub fixed_out: bool,
    pub f32: bool,
    pub degree: u8,
    pub ratio: f64,
    pub chunk: usize,
    pub sig: Sig,
    pub out_frames: usize,
}

pub struct C08;

pub fn poly_degree(d: u8) -> usize {
    [7, 5, 3, 1, 0][(d % 5) as usize]
}

fn run_t<T: SampleX>(c: &Case) -> Outcome {
    let mut o = Outcome::default();
    let kind = if c.fixed_out { Kind::FastOut } else { Kind::FastIn };
    let cfg = Config { kind, f32: c.f32, ratio: c.ratio, max_rel: 1.0, chunk: c.chunk, channels: 1, degree: c.degree, ..Config::default() };
    let dname = ["Septic", "Quintic", "Cubic", "Linear", "Nearest"][(c.degree % 5) as usize];
    o.class(format!("{}:{}", kind.name(), dname));
    o.class(if c.f32 { "sample:f32" } else { "sample:f64" });
    let pd = poly_degree(c.degree);
    let n_in = (c.out_frames as f64 / c.ratio) as usize + 4 * c.chunk + 64;
    let scale = n_in as f64;
    let mut local: Option<(Vec<f64>, f64)> = None;
    let (sig, sum_abs, slope, label) = match &c.sig {
        Sig::Poly { coefs } => {
            let cs: Vec<f64> = coefs.iter().take(pd + 1).cloned().collect();
            let s: f64 = cs.iter().map(|v| v.abs()).sum();
            let sl: f64 = cs.iter().enumerate().map(|(k, v)| k as f64 * v.abs()).sum::<f64>() / scale;
            (Signal::Poly { coefs: cs, scale }, s.max(1e-3), sl, "poly")
        }
        Sig::Mono { k } => {
            let k = (*k as usize) % (pd + 1);
            let mut cs = vec![0.0; k + 1];
            cs[k] = 1.0;
            (Signal::Poly { coefs: cs, scale }, 1.0, k as f64 / scale, "basis")
        }
        Sig::Local { coefs, mono, scale: sc } => {
            let mut cs: Vec<f64> = coefs.iter().take(pd + 1).cloned().collect();
            cs.resize(pd + 1, 0.0);
            if *mono >= 0 {
                let k = (*mono as usize) % (pd + 1);
                cs = vec![0.0; k + 1];
                cs[k] = 1.0;
            }
            // magnitude and slope bounds inside |v| <= 2
            let s: f64 = cs.iter().enumerate().map(|(k, v)| v.abs() * 2f64.powi(k as i32)).sum();
            let sl: f64 = cs.iter().enumerate().map(|(k, v)| k as f64 * v.abs() * 2f64.powi(k as i32 - 1)).sum::<f64>() / sc;
            local = Some((cs.clone(), *sc));
            (Signal::Zeros, s.max(1e-3), sl, "local-poly")
        }
        Sig::Sine { f, a, ph } => (Signal::Tones { tones: vec![Tone { f: *f, a: *a, ph: *ph }] }, *a, 2.0 * std::f64::consts::PI * f * a, "sine"),
    };
    o.class(label);
    // local polynomial: expand q(v), v = (n - centre)/scale, exactly as a Signal::Poly in u = n/scale with shifted coefficients
    let centre = (n_in / 2) as f64;
    let sig = if let Some((cs, sc)) = &local {
        // q(u - c0) with c0 = centre/scale: binomial expansion in f64 would lose digits; evaluate through a dedicated signal instead
        Signal::LocalPoly { coefs: cs.clone(), centre, scale: *sc }
    } else {
        sig
    };
    let y = match stream_out::<T>(&cfg, &sig, c.out_frames) {
        Ok(y) => y,
        Err(e) => {
            o.fail(format!("stream-error:{}", kind.name()), e);
            return o;
        }
    };
    let t = 1.0 / c.ratio;
    let idx_max = (if c.fixed_out { c.chunk as f64 * t + 12.0 } else { c.chunk as f64 }) + 24.0;
    let ulp = {
        let x = idx_max.max(1.0);
        f64::from_bits(x.to_bits() + 1) - x
    };
    let w = match &c.sig {
        Sig::Sine { f, .. } => 2.0 * std::f64::consts::PI * f,
        _ => 0.0,
    };
    let classical = match (&c.sig, c.degree % 5) {
        (Sig::Sine { a, .. }, 0) => a * 1.0681152e-3 * w.powi(8),
        (Sig::Sine { a, .. }, 1) => a * 4.8828125e-3 * w.powi(6),
        (Sig::Sine { a, .. }, 2) => a * 3.0 / 128.0 * w.powi(4),
        (Sig::Sine { a, .. }, 3) => a * w * w / 8.0,
        (Sig::Sine { a, .. }, _) => a * w,
        _ => 0.0,
    };
    let eps = if c.f32 { f32::EPSILON as f64 } else { f64::EPSILON };
    let nearest = c.degree % 5 == 4;
    let mut worst = 0.0f64;
    let mut checked = 0u64;
    let mut fracs = std::collections::HashSet::new();
    for (j, v) in y.iter().enumerate() {
        let tj = -4.0 + (j as f64 + 1.0) * t;
        if tj < 4.0 || tj > (n_in as f64) - 8.0 {
            continue;
        }
        if let Some((_, sc)) = &local {
            // only where the polynomial and all window samples are of order one
            if (tj - centre).abs() > 2.0 * sc - 5.0 {
                continue;
            }
        }
        let pos_tol = 8.0 * (j as f64 + 1.0) * ulp + 4.0 * ulp;
        let (want, extra) = if nearest {
            // the sample at or just before the instant; within rounding of an integer either neighbour is right
            let fl = tj.floor();
            let near_tie = (tj - tj.round()).abs() < 2.0 * pos_tol + 1e-12;
            let want = sig.value(0, fl as u64);
            let alt = sig.value(0, tj.round() as u64);
            let alt2 = sig.value(0, (tj.round() - 1.0).max(0.0) as u64);
            let e = if near_tie { (want - alt).abs().max((want - alt2).abs()) } else { 0.0 };
            (want, e)
        } else {
            let want = match &sig {
                Signal::Poly { coefs, scale } => {
                    let u = tj / scale;
                    let mut s = 0.0;
                    for cf in coefs.iter().rev() {
                        s = s * u + cf;
                    }
                    s
                }
                Signal::Tones { tones } => tones[0].a * (2.0 * std::f64::consts::PI * tones[0].f * tj + tones[0].ph).cos(),
                Signal::LocalPoly { coefs, centre, scale } => {
                    let v = (tj - centre) / scale;
                    let mut s = 0.0;
                    for cf in coefs.iter().rev() {
                        s = s * v + cf;
                    }
                    s
                }
                _ => unreachable!(),
            };
            (want, 0.0)
        };
        // for f32 the input samples themselves are rounded: one eps of the magnitude, amplified by the Lebesgue constant of the window (< 4)
        let tol = 64.0 * eps * sum_abs + pos_tol * slope + extra + if nearest { 0.0 } else { classical * (1.0 + 1e-6) + 1e-9 * classical };
        let d = (v.f64v() - want).abs();
        checked += 1;
        fracs.insert(((tj - tj.floor()) * 4096.0) as u32);
        if d / tol > worst {
            worst = d / tol;
        }
        if !(d <= tol) {
            let cls = if classical > 0.0 { "sine-bound" } else { "exactness" };
            o.fail(
                format!("{}:{}:{}", cls, kind.name(), dname),
                format!("output frame {} (instant {:.6}): got {:e}, expected {:e}, |error| {:e} > tolerance {:e} (classical bound {:e}); ratio {}, chunk {}", j, tj, v.f64v(), want, d, tol, classical, c.ratio, c.chunk),
            );
            return o;
        }
    }
    o.maxi(&format!("worst_err_over_tol:{}:{}", label, if c.f32 { "f32" } else { "f64" }), worst);
    o.count("frames_checked", checked);
    o.count("distinct_fractional_positions", fracs.len() as u64);
    o.nontrivial = (checked >= 200 || (local.is_some() && checked >= 8)) && fracs.len() >= 2;
    if fracs.len() >= 64 {
        o.class("fractional-positions>=64");
    }
    o
}

impl Property for C08 {
    type Case = Case;
    fn id(&self) -> &'static str {
        "C08"
    }
    fn rule(&self) -> String {
        "cases = FastFixedIn/FastFixedOut, degree, ratio, chunk size, f32/f64 and an input that is a random polynomial of admissible degree in a normalised variable, a single monomial (basis; forced for every degree and variant at ratios giving >= 64 distinct fractional positions) or a sinusoid of normalised frequency up to 0.45; every output frame past the pre-roll is compared with the generating function at (j+1)/ratio - 4 (Nearest: at the floor). non-trivial = >= 200 frames checked at >= 2 distinct fractional positions. distinct = distinct case JSON digest.".into()
    }
    fn assumptions(&self) -> Vec<String> {
        vec!["tolerance = 64 eps_T x sum|coefficients| + position-rounding model 8(j+1)ulp(idx_max) x slope (+ the exact Lagrange remainder bound for sinusoids)".into()]
    }
    fn isolated(&self) -> bool {
        true
    }
    fn strategy(&self, tier: Tier) -> BoxedStrategy<Case> {
        let sig = prop_oneof![
            3 => proptest::collection::vec(-1.0f64..1.0, 8).prop_map(|coefs| Sig::Poly { coefs }),
            2 => (0u8..8).prop_map(|k| Sig::Mono { k }),
            3 => (0.0005f64..0.45, 0.1f64..2.0, 0.0f64..6.28).prop_map(|(f, a, ph)| Sig::Sine { f, a, ph }),
            3 => (proptest::collection::vec(-1.0f64..1.0, 8), prop_oneof![2 => Just(-1i8), 1 => 0i8..8], 6.0f64..40.0).prop_map(|(coefs, mono, scale)| Sig::Local { coefs, mono, scale }),
        ];
        let frames = if tier.thorough() { 2000usize..20000 } else { 1500usize..4000 };
        (any::<bool>(), any::<bool>(), 0u8..5, ratio_strategy(), chunk_strategy(4096), sig, frames)
            .prop_map(|(fixed_out, f32, degree, ratio, chunk, sig, out_frames)| {
                let max_out = ((1u64 << 19) as f64 * ratio) as usize;
                Case { fixed_out, f32, degree, ratio, chunk, sig, out_frames: out_frames.min(max_out.max(300)) }
            })
            .boxed()
    }
    fn cases(&self, tier: Tier) -> u32 {
        if tier.thorough() {
            2_000_000
        } else {
            40_000
        }
    }
    fn forced(&self, _tier: Tier) -> Vec<Case> {
        // the basis 1, t, .., t^d for every degree and variant, at ratios with many fractional positions
        let mut v = vec![];
        for degree in 0..5u8 {
            for k in 0..=poly_degree(degree) as u8 {
                for fixed_out in [false, true] {
                    for (ratio, chunk) in [(0.7391, 64), (1.0 / 0.99713, 1024), (3.1415926, 5)] {
                        for f32 in [false, true] {
                            v.push(Case { fixed_out, f32, degree, ratio, chunk, sig: Sig::Mono { k }, out_frames: 3000 });
                        }
                    }
                }
            }
        }
        // the same basis on a scale of a few samples, where the k-th finite difference of v^k is of order one
        for degree in 0..4u8 {
            for k in 0..=poly_degree(degree) as i8 {
                for fixed_out in [false, true] {
                    for (ratio, chunk, scale) in [(0.7391, 16, 8.0), (1.61803, 64, 12.0), (5.3, 7, 6.5)] {
                        v.push(Case { fixed_out, f32: false, degree, ratio, chunk, sig: Sig::Local { coefs: vec![], mono: k, scale }, out_frames: 2000 });
                    }
                }
            }
        }
        v
    }
    fn run(&self, c: &Case) -> Outcome {
        if c.f32 {
            run_t::<f32>(c)
        } else {
            run_t::<f64>(c)
        }
    }
    fn health(&self, a: &Aggregate) -> Option<String> {
        if a.evaluations > 500 && (a.distinct.len() as u64) * 2 < a.evaluations {
            return Some(format!("only {} of {} cases were non-trivial", a.distinct.len(), a.evaluations));
        }
        None
    }
}
