//! C17 — f32 and f64 instantiations agree to single precision and in all frame counts.
use crate::cfg::{config_strategy, CfgSpace, Config};
use crate::engine::{Aggregate, Outcome, Property, Tier};
use crate::hist::{call_cost, exec_history, ops_strategy, HistOpts, Op, OpSpace, StepRes};
use crate::signal::{Signal, Tone};
use proptest::prelude::*;
use serde::{Deserialize, Serialize};

#[derive(Clone, Debug, Serialize, Deserialize)]
pub struct Case {
    pub cfg: Config,
    pub seed: u64,
    pub tones: Vec<Tone>,
    /// the whole input is scaled by 10^amp_exp (0, -2, -4, -6): the agreement is relative to the peak, whatever the level
    #[serde(default)]
    pub amp_exp: i16,
    pub ops: Vec<Op>,
}

pub struct C17;

const K: f64 = 64.0;

fn run(c0: &Case) -> Outcome {
    let mut o = Outcome::default();
    let (cfg, excl) = c0.cfg.sanitized();
    for l in excl {
        o.class(l);
    }
    let kind = cfg.kind;
    o.class(format!("kind:{}", kind.name()));
    let table = cfg.filt_len() * cfg.os;
    if kind.is_sinc() {
        o.class(if table >= 1 << 16 { "table>=2^16" } else if table > 1 << 13 { "table>2^13" } else { "table<=2^13" });
    }
    let opts = HistOpts { envelope: true, record_out: true, quant32: true, stop_on_err: true };
    let scale = 10f64.powi(c0.amp_exp.clamp(-12, 0) as i32);
    if c0.amp_exp != 0 {
        o.class("quiet input");
    }
    let sig = Signal::TonesNoise { tones: c0.tones.iter().map(|t| Tone { f: t.f, a: t.a * scale, ph: t.ph }).collect(), seed: c0.seed, noise: 0.2 * scale };
    let mut c32 = cfg.clone();
    c32.f32 = true;
    let mut c64 = cfg.clone();
    c64.f32 = false;
    let t32 = exec_history::<f32>(&c32, &sig, &c0.ops, &opts);
    let t64 = exec_history::<f64>(&c64, &sig, &c0.ops, &opts);
    if t32.built_err.is_some() || t64.built_err.is_some() {
        if t32.built_err.is_some() != t64.built_err.is_some() {
            o.fail(format!("construct-differs:{}", kind.name()), "one instantiation rejected the configuration, the other accepted it");
        } else {
            o.fail(format!("construct-rejected:{}", kind.name()), "constructor rejected a valid configuration");
        }
        return o;
    }
    if t32.initial != t64.initial {
        o.fail(format!("getters-differ:{}:initial", kind.name()), format!("initial getters f32 {:?} vs f64 {:?}", t32.initial, t64.initial));
        return o;
    }
    if t32.steps.len() != t64.steps.len() || t32.stuck != t64.stuck {
        o.fail(format!("histories-diverge:{}", kind.name()), format!("f32 executed {} steps, f64 {}", t32.steps.len(), t64.steps.len()));
        return o;
    }
    // peak of the f64 output stream (at least the input peak, so silence at the start does not tighten the bound)
    let in_peak: f64 = scale * (c0.tones.iter().map(|t| t.a).sum::<f64>() + 0.2);
    let mut peak = in_peak;
    for s in &t64.steps {
        for ch in &s.out {
            for v in ch {
                peak = peak.max(v.abs());
            }
        }
    }
    // FFT types: single-precision transforms of 2N points (mixed radix / Bluestein for awkward sizes) lose
    // accuracy roughly with sqrt(N): calibrated 14 eps at N <= 1024, 41 at <= 4096, 65 at ~4800
    let k_allowed = if kind.is_fft() {
        let (fi, fo) = cfg.fft_blocks();
        K.max(3.0 * (fi.max(fo) as f64).sqrt())
    } else {
        K
    };
    let tol = k_allowed * f32::EPSILON as f64 * peak;
    let mut frames = 0u64;
    let mut worst = 0.0f64;
    for (a, b) in t32.steps.iter().zip(&t64.steps) {
        if a.before != b.before || a.after != b.after {
            o.fail(format!("getters-differ:{}", kind.name()), format!("op {}: getters f32 {:?}->{:?} vs f64 {:?}->{:?}", a.op, a.before, a.after, b.before, b.after));
            return o;
        }
        if a.res != b.res {
            o.fail(format!("counts-differ:{}", kind.name()), format!("op {}: f32 returned {:?}, f64 {:?}", a.op, a.res, b.res));
            return o;
        }
        if a.written != b.written {
            o.fail(format!("written-differ:{}", kind.name()), format!("op {}: frames written f32 {:?}, f64 {:?}", a.op, a.written, b.written));
            return o;
        }
        if let StepRes::Call(Ok(_)) = a.res {
            for (ch, (x, y)) in a.out.iter().zip(&b.out).enumerate() {
                if x.len() != y.len() {
                    o.fail(format!("lengths-differ:{}", kind.name()), format!("op {} channel {}: {} vs {} frames", a.op, ch, x.len(), y.len()));
                    return o;
                }
                for (i, (u, v)) in x.iter().zip(y).enumerate() {
                    let d = (*u as f64 - *v).abs();
                    frames += 1;
                    let rel = d / (f32::EPSILON as f64 * peak);
                    if rel > worst {
                        worst = rel;
                    }
                    if !(d <= tol) {
                        o.fail(
                            format!("outputs-differ:{}", kind.name()),
                            format!("op {} channel {} frame {}: f32 {:e} vs f64 {:e}, |diff| = {:.1} eps_f32 * peak (allowed {:.0}); table size {}", a.op, ch, i, u, v, rel, k_allowed, table),
                        );
                        return o;
                    }
                }
            }
        }
    }
    if kind.is_fft() {
        let (fi, fo) = cfg.fft_blocks();
        let n = fi.max(fo);
        let b = if n <= 256 { "<=256" } else if n <= 1024 { "<=1024" } else if n <= 4096 { "<=4096" } else { ">4096" };
        o.maxi(&format!("worst_eps:fft:block{}", b), worst);
    }
    o.maxi(&format!("worst_eps:{}", if kind.is_sinc() { "sinc" } else if kind.is_fft() { "fft" } else { "fast" }), worst);
    o.count("frames_compared", frames);
    o.count("calls", t64.calls as u64);
    o.nontrivial = t64.calls >= 1 && (kind.fixed_out() || kind.is_fft() || frames >= 2000);
    o
}

impl Property for C17 {
    type Case = Case;
    fn id(&self) -> &'static str {
        "C17"
    }
    fn rule(&self) -> String {
        "cases = configuration (all seven types; sinc tables up to 512 x 2048 points), f32-representable input (tones + 20 % noise), history of documented operations executed on the f32 and on the f64 instantiation; all getters, returned counts and frames written must be equal and every output sample within 64 eps_f32 x peak (FFT types: max(64, 3 sqrt(block size)) eps_f32 x peak). non-trivial = at least one processing call and (fixed-output or FFT type, whose counts depend on arithmetic, or >= 2000 compared frames). distinct = distinct case JSON digest.".into()
    }
    fn assumptions(&self) -> Vec<String> {
        vec!["inputs are rounded to f32 so both instantiations see the same samples".into(), "histories stay in the benign envelope (DESIGN §6)".into()]
    }
    fn strategy(&self, tier: Tier) -> BoxedStrategy<Case> {
        let th = tier.thorough();
        let mut sp = CfgSpace::histories(th);
        sp.max_sinc_len = 512;
        sp.min_sinc_len = 8;
        sp.max_os = 2048;
        sp.max_chunk = if th { 4096 } else { 1024 };
        sp.max_channels = 2;
        sp.max_fft_block = if th { 4096 } else { 1024 };
        sp.probes = false;
        let tone = (0.001f64..0.45, 0.2f64..1.0, 0.0f64..6.28).prop_map(|(f, a, ph)| Tone { f, a, ph });
        (config_strategy(sp), any::<u64>(), proptest::collection::vec(tone, 1..=2), ops_strategy(OpSpace::all(), 16), prop_oneof![2 => Just(false), 1 => Just(true)], prop_oneof![3 => Just(0i16), 1 => Just(-2i16), 1 => Just(-4i16), 1 => Just(-6i16)])
            .prop_map(move |(mut cfg, seed, tones, ops, big, amp_exp)| {
                // a share of the sinc cases gets a large table (the normalisation sum runs over L*os terms)
                if cfg.kind.is_sinc() && big {
                    cfg.sinc_len = cfg.sinc_len.max(256);
                    cfg.os = cfg.os.max(256);
                }
                let calls = ops.iter().filter(|o| o.is_call()).count().max(1) as f64;
                let budget = if th { 4e7 } else { 8e6 };
                while call_cost(&cfg) * calls > budget && cfg.chunk > 1 {
                    cfg.chunk = (cfg.chunk / 2).max(1);
                }
                Case { cfg, seed, tones, ops, amp_exp }
            })
            .boxed()
    }
    fn cases(&self, tier: Tier) -> u32 {
        if tier.thorough() {
            300_000
        } else {
            40_000
        }
    }
    fn run(&self, c: &Case) -> Outcome {
        run(c)
    }
    fn health(&self, a: &Aggregate) -> Option<String> {
        if a.evaluations > 500 && (a.distinct.len() as u64) * 3 < a.evaluations {
            return Some(format!("only {} of {} cases were non-trivial", a.distinct.len(), a.evaluations));
        }
        None
    }
}
