pub mod hist_props;
pub mod c13;
pub mod c12;
pub mod c10;
pub mod c05;
pub mod c17;
