pub mod hist_props;
