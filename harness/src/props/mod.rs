pub mod hist_props;
pub mod c13;
pub mod c12;
