//! C13 — malformed arguments yield the matching Err, never a panic, and change nothing.
use crate::cfg::{config_strategy, CfgSpace, Config, Kind, ALL_KINDS};
use crate::dynres::{classify, ErrKind, SampleX};
use crate::engine::{Aggregate, Outcome, Property, Tier};
use crate::hist::{call_cost, ops_strategy, HistOpts, Interp, Op, OpSpace, Step, StepRes, Trace};
use crate::signal::Signal;
use proptest::prelude::*;
use rubato::{FastFixedIn, FastFixedOut, FftFixedIn, FftFixedInOut, FftFixedOut, ResamplerConstructionError, SincFixedIn, SincFixedOut};
use serde::{Deserialize, Serialize};

#[derive(Clone, Copy, Debug, Serialize, Deserialize, PartialEq)]
pub enum ChCount {
    Zero,
    Minus1,
    Plus1,
    Double,
}
impl ChCount {
    fn apply(self, n: usize) -> usize {
        match self {
            ChCount::Zero => 0,
            ChCount::Minus1 => n - 1,
            ChCount::Plus1 => n + 1,
            ChCount::Double => 2 * n,
        }
    }
}

#[derive(Clone, Debug, Serialize, Deserialize, PartialEq)]
pub enum Fault {
    InCh(ChCount),
    OutCh(ChCount),
    /// channel selector, new length = frac * (need-1) / 65535  (0 ..= need-1)
    ShortIn { ch: u8, frac: u16 },
    ShortOut { ch: u8, frac: u16 },
    MaskLen(ChCount),
}

#[derive(Clone, Copy, Debug, Serialize, Deserialize, PartialEq)]
pub enum FPath {
    Pib,
    Alloc,
    PartialPib,
}

#[derive(Clone, Debug, Serialize, Deserialize)]
pub struct CallCase {
    pub cfg: Config,
    pub seed: u64,
    pub prefix: Vec<Op>,
    pub faults: Vec<Fault>,
    pub path: FPath,
    /// valid mask (bits) passed along with the malformed call when no mask fault is injected
    pub mask: Option<u8>,
    pub suffix: Vec<Op>,
}

#[derive(Clone, Debug, Serialize, Deserialize)]
pub struct CtorCase {
    pub kind: Kind,
    pub f32: bool,
    /// 0: ratio = 0, 1: ratio = -x, 2: ratio = -inf, 3: max_rel < 1, 4: rate_in = 0, 5: rate_out = 0, 6: both rates 0
    pub which: u8,
    pub x: f64,
    pub chunk: usize,
    pub channels: usize,
    /// sinc types: through `new_with_interpolator` (with a scalar kernel) instead of `new`
    #[serde(default)]
    pub with_interp: bool,
}

#[derive(Clone, Debug, Serialize, Deserialize)]
pub enum Case {
    Call(CallCase),
    Ctor(CtorCase),
}

pub struct C13;

fn steps_equal<T: SampleX>(a: &Step<T>, b: &Step<T>) -> Option<String> {
    if a.res != b.res {
        return Some(format!("results differ: {:?} vs {:?}", a.res, b.res));
    }
    if a.before != b.before || a.after != b.after {
        return Some(format!("getters differ: {:?}/{:?} vs {:?}/{:?}", a.before, a.after, b.before, b.after));
    }
    if a.written != b.written {
        return Some(format!("written counts differ: {:?} vs {:?}", a.written, b.written));
    }
    if a.out.len() != b.out.len() {
        return Some("output channel counts differ".into());
    }
    for (c, (x, y)) in a.out.iter().zip(&b.out).enumerate() {
        if x.len() != y.len() {
            return Some(format!("channel {} output lengths differ {} vs {}", c, x.len(), y.len()));
        }
        for (i, (u, v)) in x.iter().zip(y).enumerate() {
            if u.bits() != v.bits() {
                return Some(format!("channel {} frame {}: {:?} vs {:?}", c, i, u, v));
            }
        }
    }
    None
}

fn new_trace<T>() -> Trace<T> {
    Trace { built_err: None, initial: None, steps: vec![], proposals: 0, envelope_altered: 0, envelope_skipped: 0, stuck: false, model_checked: 0, model_mismatch: 0, model_mismatch_at: None, probe: None, calls: 0, total_in: 0, total_out: 0 }
}

fn run_call<T: SampleX>(c0: &CallCase) -> Outcome {
    let mut o = Outcome::default();
    let (cfg, excl) = c0.cfg.sanitized();
    for l in excl {
        o.class(l);
    }
    let c = &CallCase { cfg, ..c0.clone() };
    let kind = c.cfg.kind;
    o.class(format!("kind:{}", kind.name()));
    o.class(format!("path:{:?}", c.path));
    let opts = HistOpts { envelope: true, record_out: true, quant32: false, stop_on_err: true };
    let sig = Signal::Noise { seed: c.seed, amp: 1.0 };
    let (mut a, mut b) = match (Interp::<T>::new(&c.cfg, &opts), Interp::<T>::new(&c.cfg, &opts)) {
        (Ok(a), Ok(b)) => (a, b),
        _ => {
            o.fail(format!("construct-rejected:{}", kind.name()), "constructor rejected a valid configuration");
            return o;
        }
    };
    let (mut ta, mut tb) = (new_trace::<T>(), new_trace::<T>());
    let mut prefix_calls = 0;
    for (i, op) in c.prefix.iter().enumerate() {
        a.step(i, op, &sig, &mut ta);
        b.step(i, op, &sig, &mut tb);
        if ta.stuck {
            o.class("stuck-in-prefix");
            return o;
        }
        if let Some(Step { res: StepRes::Call(r), .. }) = ta.steps.last() {
            if r.is_err() {
                // a valid prefix failing is C03's business, not this property's
                o.class("prefix-call-failed");
                return o;
            }
            if op.is_call() {
                prefix_calls += 1;
            }
        }
    }
    // --- the malformed call on instance a
    let ch = c.cfg.channels;
    let g = a.res.getters();
    let (need, on) = (g.in_next, g.out_next);
    let mut mask: Option<Vec<bool>> = c.mask.map(|bits| (0..ch).map(|k| (bits >> (k % 8)) & 1 == 1).collect());
    let active = |m: &Option<Vec<bool>>, k: usize| m.as_ref().map(|m| m.get(k).copied().unwrap_or(true)).unwrap_or(true);
    let mut inp: Vec<Vec<T>> = (0..ch).map(|k| (0..need).map(|n| T::of64(sig.value(k, a.pos + n as u64))).collect()).collect();
    let mut out: Vec<Vec<T>> = (0..ch).map(|_| vec![T::sentinel(); on + 3]).collect();
    let mut expected: Vec<ErrKind> = vec![];
    let mut applied = 0;
    let valid_mask = mask.clone();
    for f in &c.faults {
        match f {
            Fault::InCh(cc) if c.path != FPath::PartialPib => {
                let n = cc.apply(ch);
                if inp.len() != ch {
                    continue;
                }
                inp.resize(n, vec![T::of64(0.25); need]);
                expected.push(ErrKind::WrongIn { expected: ch, actual: n });
                applied += 1;
                o.class("fault:input-channel-count");
            }
            Fault::OutCh(cc) if c.path != FPath::Alloc => {
                let n = cc.apply(ch);
                if out.len() != ch {
                    continue;
                }
                out.resize(n, vec![T::sentinel(); on + 3]);
                expected.push(ErrKind::WrongOut { expected: ch, actual: n });
                applied += 1;
                o.class("fault:output-channel-count");
            }
            Fault::ShortIn { ch: sel, frac } if c.path != FPath::PartialPib && need >= 1 && inp.len() == ch => {
                let actives: Vec<usize> = (0..ch).filter(|k| active(&valid_mask, *k)).collect();
                if actives.is_empty() {
                    continue;
                }
                let k = actives[*sel as usize % actives.len()];
                if inp[k].len() != need {
                    continue;
                }
                let newlen = (*frac as usize * (need - 1)) / 65535;
                inp[k].truncate(newlen);
                expected.push(ErrKind::ShortIn { channel: k, expected: need, actual: newlen });
                applied += 1;
                o.class(if newlen == 0 { "fault:input-empty" } else if newlen == need - 1 { "fault:input-short-by-1" } else { "fault:input-short" });
            }
            Fault::ShortOut { ch: sel, frac } if c.path != FPath::Alloc && on >= 1 && out.len() == ch => {
                let actives: Vec<usize> = (0..ch).filter(|k| active(&valid_mask, *k)).collect();
                if actives.is_empty() {
                    continue;
                }
                let k = actives[*sel as usize % actives.len()];
                if out[k].len() != on + 3 {
                    continue;
                }
                let newlen = (*frac as usize * (on - 1)) / 65535;
                out[k].truncate(newlen);
                expected.push(ErrKind::ShortOut { channel: k, expected: on, actual: newlen });
                applied += 1;
                o.class(if newlen == 0 { "fault:output-empty" } else if newlen == on - 1 { "fault:output-short-by-1" } else { "fault:output-short" });
            }
            Fault::MaskLen(cc) => {
                let n = cc.apply(ch);
                if mask.as_ref().map(|m| m.len() != ch).unwrap_or(false) {
                    continue;
                }
                mask = Some(vec![true; n]);
                expected.push(ErrKind::WrongMask { expected: ch, actual: n });
                applied += 1;
                o.class(if n < ch { "fault:mask-short" } else { "fault:mask-long" });
            }
            _ => {}
        }
    }
    if applied == 0 {
        o.class("no-fault-applicable");
        return o;
    }
    // a ShortIn/ShortOut on a channel that a mask fault re-activated, or faults shadowing each other, are
    // multi-fault cases: any of the expected errors is accepted.
    // inactive channels are passed as empty inputs only when the mask is the valid one
    if mask == valid_mask {
        for k in 0..ch.min(inp.len()) {
            if !active(&valid_mask, k) {
                inp[k].clear();
            }
        }
    }
    let before = a.res.getters();
    let mref = mask.as_deref();
    let got: Result<(), ErrKind> = match c.path {
        FPath::Pib => a.res.pib(&inp, &mut out, mref).map(|_| ()).map_err(|e| classify(&e)),
        FPath::PartialPib => a.res.partial_pib(Some(&inp), &mut out, mref).map(|_| ()).map_err(|e| classify(&e)),
        FPath::Alloc => a.res.proc_alloc(&inp, mref).map(|_| ()).map_err(|e| classify(&e)),
    };
    match &got {
        Ok(()) => {
            o.fail(format!("accepted:{}:{:?}", kind.name(), c.path), format!("malformed call was accepted; injected {:?}", expected));
            return o;
        }
        Err(e) => {
            if !expected.contains(e) {
                let vname = |e: &ErrKind| format!("{:?}", e).split([' ', '{']).next().unwrap_or("").to_string();
                let same_variant = expected.iter().any(|x| vname(x) == vname(e));
                o.fail(
                    format!("{}:{}:{:?}", if same_variant { "wrong-fields" } else { "wrong-variant" }, kind.name(), c.path),
                    format!("malformed call returned {:?}; expected one of {:?}", e, expected),
                );
                return o;
            }
        }
    }
    if out.iter().any(|v| v.iter().any(|s| !s.is_sentinel())) {
        o.fail(format!("wrote-output:{}", kind.name()), "failed call wrote into the output buffers");
        return o;
    }
    let after = a.res.getters();
    if before != after {
        o.fail(format!("getters-changed:{}", kind.name()), format!("getters changed across a failed call: {:?} -> {:?}", before, after));
        return o;
    }
    // --- the suffix on both; the instance that saw the failed call must be indistinguishable
    let base = c.prefix.len() + 1;
    let mut suffix_calls = 0;
    // always at least one plain processing call after the failed one
    let tail = Op::Process { path: crate::hist::Path::Pib, slack_in: 0, slack_out: 0, mask: None };
    for (j, op) in c.suffix.iter().chain(std::iter::once(&tail)).enumerate() {
        let (na, nb) = (ta.steps.len(), tb.steps.len());
        a.step(base + j, op, &sig, &mut ta);
        b.step(base + j, op, &sig, &mut tb);
        if ta.stuck || tb.stuck {
            if ta.stuck != tb.stuck {
                o.fail(format!("diverged:{}", kind.name()), "one twin got stuck in the envelope and the other did not");
            }
            break;
        }
        if ta.steps.len() - na != tb.steps.len() - nb {
            o.fail(format!("diverged:{}", kind.name()), "twins executed a different number of steps");
            break;
        }
        if ta.steps.len() > na {
            if let Some(d) = steps_equal(ta.steps.last().unwrap(), tb.steps.last().unwrap()) {
                o.fail(format!("state-changed:{}:{:?}", kind.name(), c.path), format!("after the failed call, op {} behaves differently from a twin that never saw it: {}", base + j, d));
                break;
            }
            if matches!(ta.steps.last().unwrap().res, StepRes::Call(Ok(_))) {
                suffix_calls += 1;
            }
            if matches!(ta.steps.last().unwrap().res, StepRes::Call(Err(_))) {
                break;
            }
        }
    }
    o.count("suffix_calls_compared", suffix_calls);
    o.nontrivial = prefix_calls >= 1 && suffix_calls >= 1;
    if expected.len() > 1 {
        o.class("multi-fault");
    }
    o
}

fn ctor_err<T: SampleX>(c: &CtorCase) -> Result<(), ResamplerConstructionError> {
    let x = c.x.abs().max(1e-300);
    let (ratio, max_rel, rin, rout) = match c.which {
        0 => (0.0, 1.5, 44100, 48000),
        1 => (-x, 1.5, 44100, 48000),
        2 => (f64::NEG_INFINITY, 1.5, 44100, 48000),
        3 => (1.25, 1.0 - (x.min(1e6) / (1.0 + x.min(1e6))).max(f64::EPSILON), 44100, 48000),
        4 => (1.25, 1.5, 0, 48000),
        5 => (1.25, 1.5, 44100, 0),
        _ => (1.25, 1.5, 0, 0),
    };
    let p = || Config::default().sinc_params();
    if c.with_interp && c.kind.is_sinc() {
        let k = Box::new(rubato::sinc_interpolator::ScalarInterpolator::<T>::new(64, 16, 0.9, rubato::WindowFunction::Blackman2));
        let it = rubato::SincInterpolationType::Cubic;
        return if c.kind == Kind::SincIn {
            SincFixedIn::<T>::new_with_interpolator(ratio, max_rel, it, k, c.chunk, c.channels).map(|_| ())
        } else {
            SincFixedOut::<T>::new_with_interpolator(ratio, max_rel, it, k, c.chunk, c.channels).map(|_| ())
        };
    }
    match c.kind {
        Kind::FastIn => FastFixedIn::<T>::new(ratio, max_rel, rubato::PolynomialDegree::Cubic, c.chunk, c.channels).map(|_| ()),
        Kind::FastOut => FastFixedOut::<T>::new(ratio, max_rel, rubato::PolynomialDegree::Cubic, c.chunk, c.channels).map(|_| ()),
        Kind::SincIn => SincFixedIn::<T>::new(ratio, max_rel, p(), c.chunk, c.channels).map(|_| ()),
        Kind::SincOut => SincFixedOut::<T>::new(ratio, max_rel, p(), c.chunk, c.channels).map(|_| ()),
        Kind::FftIn => FftFixedIn::<T>::new(rin, rout, c.chunk, 1, c.channels).map(|_| ()),
        Kind::FftOut => FftFixedOut::<T>::new(rin, rout, c.chunk, 1, c.channels).map(|_| ()),
        Kind::FftInOut => FftFixedInOut::<T>::new(rin, rout, c.chunk, c.channels).map(|_| ()),
    }
}

fn run_ctor(c: &CtorCase) -> Outcome {
    let mut o = Outcome::default();
    let is_async = c.kind.is_async();
    // map the fault to one that applies to this family
    let mut cc = c.clone();
    if is_async && cc.which >= 4 {
        cc.which %= 4;
    }
    if !is_async && cc.which < 4 {
        cc.which = 4 + cc.which % 3;
    }
    o.class(format!("ctor:{}:{}{}", cc.kind.name(), cc.which, if cc.with_interp && cc.kind.is_sinc() { ":new_with_interpolator" } else { "" }));
    let r = if cc.f32 { ctor_err::<f32>(&cc) } else { ctor_err::<f64>(&cc) };
    let ok = match (&r, cc.which) {
        (Err(ResamplerConstructionError::InvalidRatio(_)), 0..=2) => true,
        (Err(ResamplerConstructionError::InvalidRelativeRatio(_)), 3) => true,
        (Err(ResamplerConstructionError::InvalidSampleRate { input, output }), 4) => *input == 0 && *output == 48000,
        (Err(ResamplerConstructionError::InvalidSampleRate { input, output }), 5) => *input == 44100 && *output == 0,
        (Err(ResamplerConstructionError::InvalidSampleRate { input, output }), 6) => *input == 0 && *output == 0,
        _ => false,
    };
    if !ok {
        o.fail(format!("ctor:{}:{}{}", cc.kind.name(), cc.which, if cc.with_interp && cc.kind.is_sinc() { ":new_with_interpolator" } else { "" }), format!("constructor with invalid argument class {} returned {:?}", cc.which, r.as_ref().err().map(|e| e.to_string())));
    }
    o.nontrivial = true;
    o
}

impl Property for C13 {
    type Case = Case;
    fn id(&self) -> &'static str {
        "C13"
    }
    fn rule(&self) -> String {
        "cases = valid prefix history, one malformed call (wrong input/output channel count 0/n-1/n+1/2n, an active input/output channel short by 1 .. empty, mask too short/long; 20 % with two faults) through process_into_buffer / process / process_partial_into_buffer, then a suffix executed on the instance and on a twin that never saw the malformed call; plus invalid constructor arguments for all seven constructors and the two `new_with_interpolator` constructors. non-trivial = malformed call placed after >= 1 valid processing call and followed by >= 1 compared processing call (constructor cases: always). distinct = distinct case JSON digest.".into()
    }
    fn assumptions(&self) -> Vec<String> {
        vec![
            "process_partial_into_buffer documents padding of the input, so input-shape faults through it are not asserted".into(),
            "NaN ratios are not in the statement's list and are not asserted".into(),
            "multi-fault calls may return any of the matching errors".into(),
        ]
    }
    fn strategy(&self, tier: Tier) -> BoxedStrategy<Case> {
        let cc = prop_oneof![Just(ChCount::Zero), Just(ChCount::Minus1), Just(ChCount::Plus1), Just(ChCount::Double)];
        let frac = prop_oneof![1 => Just(0u16), 1 => Just(65535u16), 2 => any::<u16>()];
        let fault = prop_oneof![
            cc.clone().prop_map(Fault::InCh),
            cc.clone().prop_map(Fault::OutCh),
            (any::<u8>(), frac.clone()).prop_map(|(ch, frac)| Fault::ShortIn { ch, frac }),
            (any::<u8>(), frac).prop_map(|(ch, frac)| Fault::ShortOut { ch, frac }),
            cc.prop_map(Fault::MaskLen),
        ];
        let faults = prop_oneof![4 => fault.clone().prop_map(|f| vec![f]), 1 => (fault.clone(), fault).prop_map(|(a, b)| vec![a, b])];
        let path = prop_oneof![3 => Just(FPath::Pib), 1 => Just(FPath::Alloc), 1 => Just(FPath::PartialPib)];
        let mut sp = CfgSpace::histories(tier.thorough());
        sp.max_channels = 8;
        let call = (config_strategy(sp), any::<u64>(), ops_strategy(OpSpace::all(), 8), faults, path, crate::hist::mask_strategy(), ops_strategy(OpSpace::all(), 6))
            .prop_map(|(mut cfg, seed, prefix, faults, path, mask, suffix)| {
                while call_cost(&cfg) * 16.0 > 3e6 && cfg.chunk > 1 {
                    cfg.chunk = (cfg.chunk / 2).max(1);
                }
                Case::Call(CallCase { cfg, seed, prefix, faults, path, mask, suffix })
            });
        let ctor = ((0usize..7).prop_map(|i| ALL_KINDS[i]), any::<bool>(), 0u8..7, prop_oneof![Just(1.0f64), 1e-300f64..1e300], 1usize..512, 1usize..4, any::<bool>())
            .prop_map(|(kind, f32, which, x, chunk, channels, with_interp)| Case::Ctor(CtorCase { kind, f32, which, x, chunk, channels, with_interp }));
        prop_oneof![12 => call, 1 => ctor].boxed()
    }
    fn cases(&self, tier: Tier) -> u32 {
        if tier.thorough() {
            4_000_000
        } else {
            60_000
        }
    }
    fn forced(&self, _tier: Tier) -> Vec<Case> {
        let mut v = vec![];
        for kind in ALL_KINDS {
            for which in 0..7u8 {
                for f32 in [false, true] {
                    v.push(Case::Ctor(CtorCase { kind, f32, which, x: 2.5, chunk: 64, channels: 2, with_interp: false }));
                    if kind.is_sinc() {
                        v.push(Case::Ctor(CtorCase { kind, f32, which, x: 2.5, chunk: 64, channels: 2, with_interp: true }));
                    }
                }
            }
        }
        v
    }
    fn run(&self, c: &Case) -> Outcome {
        match c {
            Case::Call(c) => {
                if c.cfg.f32 {
                    run_call::<f32>(c)
                } else {
                    run_call::<f64>(c)
                }
            }
            Case::Ctor(c) => run_ctor(c),
        }
    }
    fn health(&self, a: &Aggregate) -> Option<String> {
        if a.evaluations > 1000 && (a.distinct.len() as u64) * 5 < a.evaluations {
            return Some(format!("only {} of {} cases were non-trivial", a.distinct.len(), a.evaluations));
        }
        None
    }
}
