//! C12 — ratio and chunk-size controls accept exactly the documented ranges.
use crate::cfg::{build_vec, config_strategy, CfgSpace, Config, Kind};
use crate::dynres::{ErrKind, SampleX, ViaVec};
use crate::engine::{Aggregate, Outcome, Property, Tier};
use crate::hist::{call_cost, HistOpts, Interp, Op, Path, Step, StepRes, Trace};
use crate::signal::Signal;
use proptest::prelude::*;
use serde::{Deserialize, Serialize};

#[derive(Clone, Debug, Serialize, Deserialize, PartialEq)]
pub enum ArgSpec {
    /// lower bound moved by `ulps` representable values (negative = outwards)
    Lo(i8),
    /// upper bound moved by `ulps` (positive = outwards)
    Hi(i8),
    /// lo * (hi/lo)^u
    Interior(f64),
    /// bound scaled away from the range: lo / s or hi * s, s > 1
    Far { low: bool, s: f64 },
    /// 0: 0.0, 1: -0.0, 2: -1 x, 3: smallest subnormal, 4: largest subnormal, 5: NaN, 6: +inf, 7: -inf, 8: f64::MAX, 9: f64::MIN_POSITIVE
    Special(u8),
}

#[derive(Clone, Debug, Serialize, Deserialize, PartialEq)]
pub enum Ctl {
    Ratio { arg: ArgSpec, relative: bool, ramp: bool },
    /// 0: 0, 1: 1, 2: max, 3: max+1, 4: usize::MAX, 5: frac of max, 6: max + frac
    Chunk { class: u8, frac: u16 },
    /// reset() on the instance and on its twin: the documented ranges are those of the construction-time
    /// parameters again (not part of VecResampler: skipped there)
    Reset,
}

#[derive(Clone, Debug, Serialize, Deserialize)]
pub struct Case {
    pub cfg: Config,
    pub seed: u64,
    pub ctls: Vec<Ctl>,
    /// the controlled instance is driven through `Box<dyn VecResampler>` (its twin stays direct); chunk-size
    /// controls are not part of that trait and are skipped
    #[serde(default)]
    pub via_vec: bool,
    /// bit i set: no processing call between control call i and the next one, so that the next control call acts
    /// on the pending state (a ramp not yet started, a chunk size not yet used); the last one is always followed
    /// by a processing call
    #[serde(default)]
    pub skip_process: u16,
}

pub struct C12;

fn step_by(v: f64, ulps: i64) -> f64 {
    // v is positive and finite
    let b = v.to_bits() as i64 + ulps;
    f64::from_bits(b.max(0) as u64)
}

fn arg_value(a: &ArgSpec, lo: f64, hi: f64) -> (f64, bool) {
    // returns (value, near-boundary-or-special)
    match a {
        ArgSpec::Lo(k) => (step_by(lo, *k as i64), k.abs() <= 2),
        ArgSpec::Hi(k) => (step_by(hi, *k as i64), k.abs() <= 2),
        ArgSpec::Interior(u) => {
            let v = lo * (hi / lo).powf(u.clamp(0.0, 1.0));
            (v.clamp(lo, hi), false)
        }
        ArgSpec::Far { low, s } => (if *low { lo / s.max(1.0 + 1e-12) } else { hi * s.max(1.0 + 1e-12) }, false),
        ArgSpec::Special(k) => (
            match k % 10 {
                0 => 0.0,
                1 => -0.0,
                2 => -lo,
                3 => f64::from_bits(1),
                4 => f64::from_bits(0x000f_ffff_ffff_ffff),
                5 => f64::NAN,
                6 => f64::INFINITY,
                7 => f64::NEG_INFINITY,
                8 => f64::MAX,
                _ => f64::MIN_POSITIVE,
            },
            true,
        ),
    }
}

fn new_trace<T>() -> Trace<T> {
    Trace { built_err: None, initial: None, steps: vec![], proposals: 0, envelope_altered: 0, envelope_skipped: 0, stuck: false, model_checked: 0, model_mismatch: 0, model_mismatch_at: None, probe: None, calls: 0, total_in: 0, total_out: 0 }
}

fn same<T: SampleX>(a: &Step<T>, b: &Step<T>) -> bool {
    a.res == b.res && a.before == b.before && a.after == b.after && a.written == b.written && a.out.len() == b.out.len() && a.out.iter().zip(&b.out).all(|(x, y)| x.len() == y.len() && x.iter().zip(y).all(|(u, v)| u.bits() == v.bits()))
}

fn run_t<T: SampleX>(c0: &Case) -> Outcome {
    let mut o = Outcome::default();
    let (mut cfg, excl) = c0.cfg.sanitized();
    for l in excl {
        o.class(l);
    }
    if c0.via_vec {
        // the boxed resampler comes from the plain constructor: the twin must use the same kernel
        cfg.kernel = crate::cfg::Kernel::Dispatch;
        o.class("controlled instance through Box<dyn VecResampler>");
    }
    let kind = cfg.kind;
    o.class(format!("kind:{}", kind.name()));
    let opts = HistOpts { envelope: true, record_out: true, quant32: false, stop_on_err: true };
    let sig = Signal::Noise { seed: c0.seed, amp: 1.0 };
    let first = if c0.via_vec { build_vec::<T>(&cfg).map(|b| Interp::from_res(&cfg, &opts, Box::new(ViaVec(b)))) } else { Interp::<T>::new(&cfg, &opts) };
    let (mut a, mut b) = match (first, Interp::<T>::new(&cfg, &opts)) {
        (Ok(a), Ok(b)) => (a, b),
        _ => {
            o.fail(format!("construct-rejected:{}", kind.name()), "constructor rejected a valid configuration");
            return o;
        }
    };
    let (mut ta, mut tb) = (new_trace::<T>(), new_trace::<T>());
    let (orig, mx) = (cfg.ratio, cfg.max_rel);
    let process = Op::Process { path: Path::Pib, slack_in: 0, slack_out: 0, mask: None };
    // one warm-up call so that the setters act on a used instance (bit 15 of skip_process: none, the first
    // control call then acts on the freshly constructed instance)
    if c0.skip_process & 0x8000 == 0 {
        a.step(0, &process, &sig, &mut ta);
        b.step(0, &process, &sig, &mut tb);
    } else {
        o.class("first control call on a fresh instance");
    }
    let mut cur_chunk = cfg.chunk;
    for (i, ctl) in c0.ctls.iter().enumerate() {
        let i = i + 1;
        match ctl {
            Ctl::Ratio { arg, relative, ramp } => {
                let (lo, hi) = if *relative { (1.0 / mx, mx) } else { (orig / mx, orig * mx) };
                let (v, near) = arg_value(arg, lo, hi);
                let want_ok = kind.is_async() && v >= lo && v <= hi;
                if near {
                    o.nontrivial = true;
                }
                o.class(match arg {
                    ArgSpec::Lo(0) | ArgSpec::Hi(0) => "arg:exact-bound",
                    ArgSpec::Lo(_) | ArgSpec::Hi(_) => "arg:bound-neighbour",
                    ArgSpec::Interior(_) => "arg:interior",
                    ArgSpec::Far { .. } => "arg:far",
                    ArgSpec::Special(_) => "arg:special",
                });
                a.step(i, &Op::SetRatioRaw { value: v, relative: *relative, ramp: *ramp }, &sig, &mut ta);
                let got = ta.steps.last().unwrap().res.clone();
                let what = if *relative { "set_resample_ratio_relative" } else { "set_resample_ratio" };
                if !kind.is_async() {
                    if got != StepRes::Set(Err(ErrKind::SyncNotAdjustable)) {
                        o.fail(format!("sync:{}", kind.name()), format!("{}({:e}) on a synchronous resampler returned {:?}", what, v, got));
                        return o;
                    }
                } else if want_ok {
                    if got != StepRes::Set(Ok(())) {
                        let which = if (v - lo).abs() <= (v - hi).abs() { "lower" } else { "upper" };
                        o.fail(format!("rejected-in-range:{}:{}", if *relative { "relative" } else { "absolute" }, which), format!("{}({:e}) with original {:e}, max {:e}: documented range [{:e}, {:e}] contains it but got {:?}", what, v, orig, mx, lo, hi, got));
                        return o;
                    }
                    // twin: the equivalent accepted absolute call
                    let abs = if *relative { orig * v } else { v };
                    let abs_ok = abs >= orig / mx && abs <= orig * mx;
                    if *relative && !abs_ok {
                        o.count("relative_accepted_but_product_outside_absolute_range", 1);
                        // bring the twin to the same state through the relative setter instead
                        b.step(i, &Op::SetRatioRaw { value: v, relative: true, ramp: *ramp }, &sig, &mut tb);
                    } else {
                        b.step(i, &Op::SetRatioRaw { value: abs, relative: false, ramp: *ramp }, &sig, &mut tb);
                        if tb.steps.last().unwrap().res != StepRes::Set(Ok(())) {
                            // the absolute predicate itself is checked when generated directly; here only equivalence
                            o.count("twin_absolute_call_rejected", 1);
                            b.step(i, &Op::SetRatioRaw { value: v, relative: *relative, ramp: *ramp }, &sig, &mut tb);
                        }
                    }
                } else {
                    if got != StepRes::Set(Err(ErrKind::RatioOutOfBounds)) {
                        let which = if v.is_nan() { "nan" } else if v < lo { "below" } else { "above" };
                        o.fail(format!("accepted-out-of-range:{}:{}", if *relative { "relative" } else { "absolute" }, which), format!("{}({:e}) with original {:e}, max {:e}: outside the documented range [{:e}, {:e}] but got {:?}", what, v, orig, mx, lo, hi, got));
                        return o;
                    }
                    // twin receives nothing
                }
            }
            Ctl::Chunk { .. } | Ctl::Reset if c0.via_vec => continue,
            Ctl::Reset => {
                a.step(i, &Op::Reset, &sig, &mut ta);
                b.step(i, &Op::Reset, &sig, &mut tb);
                cur_chunk = cfg.chunk;
                o.class("control:reset");
            }
            Ctl::Chunk { class, frac } => {
                let max = cfg.chunk;
                let size = match class % 7 {
                    0 => 0,
                    1 => 1,
                    2 => max,
                    3 => max + 1,
                    4 => usize::MAX,
                    5 => 1 + (*frac as usize * (max - 1)) / 65535,
                    _ => max + 1 + *frac as usize,
                };
                o.class(format!("chunk-class:{}", class % 7));
                if matches!(class % 7, 0..=4) {
                    o.nontrivial = true;
                }
                a.step(i, &Op::SetChunkRaw { size }, &sig, &mut ta);
                let got = ta.steps.last().unwrap().res.clone();
                if kind.is_sinc() {
                    if size >= 1 && size <= max {
                        if got != StepRes::Set(Ok(())) {
                            o.fail(format!("chunk-rejected:{}", kind.name()), format!("set_chunk_size({}) with max {} returned {:?}", size, max, got));
                            return o;
                        }
                        cur_chunk = size;
                        b.step(i, &Op::SetChunkRaw { size }, &sig, &mut tb);
                        let g = a.res.getters();
                        let seen = if kind == Kind::SincIn { g.in_next } else { g.out_next };
                        if seen != size {
                            o.fail(format!("chunk-not-applied:{}", kind.name()), format!("after set_chunk_size({}) the next call is announced with {} frames", size, seen));
                            return o;
                        }
                    } else if got != StepRes::Set(Err(ErrKind::InvalidChunk { max, requested: size })) {
                        o.fail(format!("chunk-accepted:{}", kind.name()), format!("set_chunk_size({}) with max {} returned {:?}", size, max, got));
                        return o;
                    }
                } else if got != StepRes::Set(Err(ErrKind::ChunkNotAdjustable)) {
                    o.fail(format!("chunk-adjustable:{}", kind.name()), format!("set_chunk_size({}) returned {:?} on a type without adjustable chunk size", size, got));
                    return o;
                }
            }
        }
        // observational equivalence with the twin: getters, then one processing call
        let (ga, gb) = (a.res.getters(), b.res.getters());
        if ga != gb {
            o.fail(format!("twin-getters:{}", kind.name()), format!("after control call {} ({:?}) getters {:?} differ from the twin's {:?}", i, ctl, ga, gb));
            return o;
        }
        if (c0.skip_process >> ((i - 1) % 16)) & 1 == 1 && i < c0.ctls.len() {
            o.class("control calls back to back");
            continue;
        }
        let (na, nb) = (ta.steps.len(), tb.steps.len());
        a.step(i, &process, &sig, &mut ta);
        b.step(i, &process, &sig, &mut tb);
        if ta.stuck || tb.stuck {
            if ta.stuck != tb.stuck {
                o.fail(format!("twin-diverged:{}", kind.name()), "one twin outside the benign envelope, the other inside");
                return o;
            }
            // pending ratio change is outside the benign envelope (known findings D7/D9): go back to the original ratio
            ta.stuck = false;
            tb.stuck = false;
            o.count("process_skipped_outside_envelope", 1);
            let back = Op::SetRatioRaw { value: orig, relative: false, ramp: false };
            a.step(i, &back, &sig, &mut ta);
            b.step(i, &back, &sig, &mut tb);
            a.step(i, &process, &sig, &mut ta);
            b.step(i, &process, &sig, &mut tb);
            if ta.stuck || tb.stuck {
                o.count("history_ended_outside_envelope", 1);
                return o;
            }
        }
        if ta.steps.len() > na && tb.steps.len() > nb {
            let (sa, sb) = (ta.steps.last().unwrap(), tb.steps.last().unwrap());
            if !same(sa, sb) {
                o.fail(format!("twin-output:{}", kind.name()), format!("after control call {} ({:?}) the next processing call differs from the twin's: {:?} vs {:?}", i, ctl, sa.res, sb.res));
                return o;
            }
            if let StepRes::Call(Ok((ni, no))) = sa.res {
                if kind == Kind::SincIn && ni != cur_chunk {
                    o.fail("chunk-size-not-consumed:SincIn", format!("chunk size {} but the call consumed {}", cur_chunk, ni));
                    return o;
                }
                if kind == Kind::SincOut && no != cur_chunk {
                    o.fail("chunk-size-not-produced:SincOut", format!("chunk size {} but the call produced {}", cur_chunk, no));
                    return o;
                }
                o.count("twin_calls_compared", 1);
            }
        }
    }
    o
}

impl Property for C12 {
    type Case = Case;
    fn id(&self) -> &'static str {
        "C12"
    }
    fn rule(&self) -> String {
        "cases = configuration (original ratio log-uniform / awkward rationals / exact dyadic stratum, max relative ratio) and up to 10 control calls: ratio arguments at both documented bounds computed in f64, their +-1..3 ulp neighbours, interior, far, 0, -0, negative, subnormal, NaN, +-inf, through the absolute and the relative setter, and chunk sizes 0, 1, max, max+1, usize::MAX, random; after every call getters and one processing call are compared with a twin that received the equivalent accepted absolute call / nothing. non-trivial = at least one argument within 2 ulp of a bound, special, or a boundary chunk size. distinct = distinct case JSON digest.".into()
    }
    fn assumptions(&self) -> Vec<String> {
        vec![
            "reference predicate: original/max <= r <= original*max and 1/max <= x <= max evaluated in f64, i.e. the bounds as documented and as a caller computes them".into(),
            "processing calls used for the twin comparison are made only when the pending state is inside the benign envelope (DESIGN §6)".into(),
        ]
    }
    fn strategy(&self, tier: Tier) -> BoxedStrategy<Case> {
        let arg = prop_oneof![
            3 => (-3i8..=3).prop_map(ArgSpec::Lo),
            3 => (-3i8..=3).prop_map(ArgSpec::Hi),
            2 => Just(ArgSpec::Lo(0)),
            2 => Just(ArgSpec::Hi(0)),
            2 => (0.0f64..=1.0).prop_map(ArgSpec::Interior),
            1 => (any::<bool>(), 1.0f64..1e6).prop_map(|(low, s)| ArgSpec::Far { low, s }),
            2 => (0u8..10).prop_map(ArgSpec::Special),
        ];
        let ctl = prop_oneof![
            6 => (arg, any::<bool>(), any::<bool>()).prop_map(|(arg, relative, ramp)| Ctl::Ratio { arg, relative, ramp }),
            1 => (0u8..7, any::<u16>()).prop_map(|(class, frac)| Ctl::Chunk { class, frac }),
            1 => Just(Ctl::Reset),
        ];
        let mut sp = CfgSpace::histories(tier.thorough());
        sp.max_chunk = 256;
        sp.max_sinc_len = 48;
        sp.max_channels = 2;
        // exact stratum: dyadic original and max, where quotient and bound tests cannot disagree
        let exact = (-4i32..=4, 0i32..=4).prop_map(|(a, b)| (2f64.powi(a), 2f64.powi(b)));
        (config_strategy(sp), any::<u64>(), proptest::collection::vec(ctl, 1..=10), prop_oneof![3 => Just(None), 1 => exact.prop_map(Some)], prop_oneof![2 => Just(None), 1 => (1.0f64..16.0).prop_map(Some)], prop_oneof![4 => Just(false), 1 => Just(true)], prop_oneof![1 => Just(0u16), 1 => any::<u16>()], prop_oneof![3 => Just(None), 1 => (1usize..=4096).prop_map(Some)])
            .prop_map(|(mut cfg, seed, ctls, exact, mr, via_vec, skip_process, k)| {
                if let (Some(k), true, None) = (k, cfg.kind.is_async(), exact) {
                    // chunk / ratio == k up to rounding (where differently rounded size formulas disagree)
                    let r = cfg.chunk as f64 / k as f64;
                    if (1.0 / 64.0..=64.0).contains(&r) {
                        cfg.ratio = r;
                    }
                }
                if let Some((r, m)) = exact {
                    cfg.ratio = r;
                    cfg.max_rel = m;
                } else if let Some(m) = mr {
                    cfg.max_rel = m;
                }
                while call_cost(&cfg) * 24.0 > 3e6 && cfg.chunk > 1 {
                    cfg.chunk = (cfg.chunk / 2).max(1);
                }
                Case { cfg, seed, ctls, via_vec, skip_process }
            })
            .boxed()
    }
    fn cases(&self, tier: Tier) -> u32 {
        if tier.thorough() {
            6_000_000
        } else {
            80_000
        }
    }
    fn run(&self, c: &Case) -> Outcome {
        if c.cfg.f32 {
            run_t::<f32>(c)
        } else {
            run_t::<f64>(c)
        }
    }
    fn health(&self, a: &Aggregate) -> Option<String> {
        if a.evaluations > 1000 && (a.distinct.len() as u64) * 3 < a.evaluations {
            return Some(format!("only {} of {} cases were non-trivial", a.distinct.len(), a.evaluations));
        }
        None
    }
}
