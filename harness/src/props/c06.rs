//! C06 — ratio changes produce a continuous, forward-only time warp.
//! Observable: the index signal x[n] = 1000 + n. Polynomial resamplers of degree >= 1 reproduce
//! the evaluation instant exactly; the sinc resamplers are given a linear probing interpolator
//! that returns the window start plus subindex/oversampling, which the linear / quadratic /
//! cubic blend turns into the exact instant.
use crate::cfg::{chunk_strategy, max_rel_strategy, ratio_strategy, Config, Kernel, Kind, INDEX_BASE};
use crate::engine::{Aggregate, Outcome, Property, Tier};
use crate::hist::{exec_history, HistOpts, Op, Path, StepRes};
use crate::signal::Signal;
use proptest::prelude::*;
use serde::{Deserialize, Serialize};

#[derive(Clone, Debug, Serialize, Deserialize)]
pub struct Case {
    pub cfg: Config,
    pub ops: Vec<Op>,
    /// false only in known-finding replays
    pub envelope: bool,
    /// true only in known-finding replays: no allowance for the ramp overshoot of finding D9
    #[serde(default)]
    pub strict_ramp: bool,
}

pub struct C06;

fn ulp(x: f64) -> f64 {
    let x = x.abs().max(1.0);
    f64::from_bits(x.to_bits() + 1) - x
}

fn run(c0: &Case) -> Outcome {
    let mut o = Outcome::default();
    let (cfg, excl) = c0.cfg.sanitized();
    for l in excl {
        o.class(l);
    }
    let kind = cfg.kind;
    o.class(format!("kind:{}", kind.name()));
    if kind.is_sinc() {
        o.class(format!("interp:{}", cfg.interp % 4));
    } else {
        o.class(format!("degree:{}", cfg.degree % 5));
    }
    let opts = HistOpts { envelope: c0.envelope, record_out: true, quant32: false, stop_on_err: true };
    // sinc (probe): x[n] = 1000 + n, so that the zero pre-roll is distinguishable; polynomial: x[n] = n,
    // so that the pre-roll is a mere kink and the interpolated garbage around it stays small
    let base = if kind.is_sinc() { INDEX_BASE } else { 0.0 };
    let sig = Signal::Poly { coefs: vec![base, 1.0], scale: 1.0 };
    let tr = exec_history::<f64>(&cfg, &sig, &c0.ops, &opts);
    if let Some(e) = &tr.built_err {
        o.fail(format!("construct-rejected:{}", kind.name()), e.clone());
        return o;
    }
    o.count("envelope_altered", tr.envelope_altered);
    o.count("envelope_skipped", tr.envelope_skipped);
    o.count("ratio_proposals", tr.proposals);
    o.count("histories_stuck", tr.stuck as u64);
    o.count("traces_validated_against_impl", tr.model_checked);
    o.count("model_frame_count_mismatch", tr.model_mismatch);
    // replica of the documented setter semantics
    let (mut start, mut target) = (cfg.ratio, cfg.ratio);
    let mut prev: Option<f64> = None;
    let preroll_limit = base + if kind.is_sinc() { 0.0 } else { 16.0 };
    let mut changes = 0;
    let mut calls_after_change = 0;
    let mut frames = 0u64;
    let mut worst_over = 0.0f64;
    // sinc: validity of each output frame from the probe's per-call log (points per frame: 4 / 3 / 2)
    let ppf = if kind.is_sinc() { [4usize, 3, 2, 1][(cfg.interp % 4) as usize] } else { 0 };
    let log: &[u8] = tr.probe.as_ref().map(|p| &p.log[..]).unwrap_or(&[]);
    let mut frame_no = 0usize;
    for s in &tr.steps {
        match &s.res {
            StepRes::Set(Ok(())) => {
                if let Some((r, ramp)) = s.ratio_set {
                    if !ramp {
                        start = r;
                    }
                    target = r;
                    changes += 1;
                    o.class(if ramp { "change:ramp" } else { "change:step" });
                }
            }
            StepRes::Call(Err(e)) => {
                o.fail(format!("err:{}", kind.name()), format!("processing call failed: {:?}", e));
                return o;
            }
            StepRes::Call(Ok((ni, no))) => {
                if changes > 0 {
                    calls_after_change += 1;
                }
                let (t0, t1) = (1.0 / start, 1.0 / target);
                let (lo, hi) = (t0.min(t1), t0.max(t1));
                let ramping = start != target;
                // finding D9: fixed-input ramps are sized for chunk*mean(ratio) frames; bounded overshoot allowance
                let allowance = if ramping && kind.fixed_in() && !c0.strict_ramp {
                    let nfr = *ni as f64 * (0.5 * start + 0.5 * target);
                    let inc = (t1 - t0).abs() / nfr;
                    ((*no as f64 - nfr + 1.0).max(0.0)) * inc
                } else {
                    0.0
                };
                let dir = (t1 - t0).signum();
                let mut last_sp: Option<f64> = None;
                // every channel carries the same signal: the instants must not depend on the channel
                let lastc = s.out.len() - 1;
                for c in 0..lastc {
                    if let Some(j) = (0..s.out[c].len().max(s.out[lastc].len())).find(|j| s.out[c].get(*j).map(|v| v.to_bits()) != s.out[lastc].get(*j).map(|v| v.to_bits())) {
                        o.fail(format!("channels-disagree:{}", kind.name()), format!("op {} frame {}: channel {} is evaluated at {:?}, channel {} at {:?} (same input on all channels)", s.op, j, c, s.out[c].get(j), lastc, s.out[lastc].get(j)));
                        return o;
                    }
                }
                for (j, v) in s.out[lastc].iter().enumerate() {
                    let inst = *v;
                    let in_preroll = if ppf > 0 {
                        let st = log.get(frame_no * ppf..(frame_no + 1) * ppf);
                        frame_no += 1;
                        match st {
                            Some(st) => st.iter().any(|x| *x == 0),
                            None => {
                                o.fail(format!("window-reuse:{}", kind.name()), "the interpolator was called fewer times than output frames x points per frame: some frame was not computed from its own windows");
                                return o;
                            }
                        }
                    } else {
                        !(inst >= preroll_limit)
                    };
                    if in_preroll || inst.is_nan() {
                        if inst.is_nan() {
                            o.fail(format!("nan:{}", kind.name()), format!("op {} frame {}: output is NaN (probe asked to read outside the buffer)", s.op, j));
                            return o;
                        }
                        prev = None;
                        continue;
                    }
                    if let Some(p) = prev {
                        let sp = inst - p;
                        let tol = 256.0 * ulp(inst) + 1e-12 * hi;
                        frames += 1;
                        if !(sp > 0.0) {
                            o.fail(format!("not-increasing:{}", kind.name()), format!("op {} frame {}: evaluation instant {} after {} (spacing {:e})", s.op, j, inst - base, p - base, sp));
                            return o;
                        }
                        let over = (lo - sp).max(sp - hi);
                        if over > tol + allowance {
                            let which = if !ramping { "steady" } else if sp > hi { "above-range" } else { "below-range" };
                            o.fail(
                                format!("spacing:{}:{}", kind.name(), which),
                                format!("op {} frame {}: spacing {:.12} outside [{:.12}, {:.12}] (start ratio {}, target {}, ramp {}, allowance {:e})", s.op, j, sp, lo, hi, start, target, ramping, allowance),
                            );
                            return o;
                        }
                        if ramping && over > tol {
                            worst_over = worst_over.max(over / (hi - lo));
                        }
                        if ramping {
                            if let Some(l) = last_sp {
                                if (sp - l) * dir < -2.0 * tol {
                                    o.fail(format!("ramp-not-monotone:{}", kind.name()), format!("op {} frame {}: spacing went from {:.12} to {:.12} while ramping from {:.12} to {:.12}", s.op, j, l, sp, t0, t1));
                                    return o;
                                }
                            }
                        }
                        last_sp = Some(sp);
                    }
                    prev = Some(inst);
                }
                start = target;
            }
            _ => {}
        }
    }
    if let Some(p) = &tr.probe {
        o.count("probe_calls", p.calls);
        if p.out_of_range > 0 || p.bad_sub > 0 {
            o.fail(format!("probe-range:{}", kind.name()), format!("interpolator asked for a window outside the buffer ({} times) or a bad sub-filter ({} times)", p.out_of_range, p.bad_sub));
            return o;
        }
        // windows that are not made of consecutive supplied frames are poisoned by the probe and show
        // up as wrong instants unless their weight in the blend is exactly zero
        o.count("probe_noncontiguous_windows_with_zero_weight", p.noncontig);
    }
    o.maxi("d9_overshoot_rel", worst_over);
    o.count("spacings_checked", frames);
    o.nontrivial = changes >= 1 && calls_after_change >= 2 && frames >= 2;
    o
}

impl Property for C06 {
    type Case = Case;
    fn id(&self) -> &'static str {
        "C06"
    }
    fn rule(&self) -> String {
        "cases = asynchronous resampler (f64; polynomial degrees Septic..Linear, sinc interpolation Cubic/Quadratic/Linear with the linear probing interpolator), index input signal (polynomial types: 1..3 channels carrying the same signal, which must come out bit-identical), history of processing calls, in-range ratio changes (stepped / ramped, several between two calls, absolute / relative) and chunk-size changes; every spacing between consecutive evaluation instants is checked against the replica of the documented setter semantics (strictly increasing, within [1/old,1/new], exactly 1/new when not ramping, monotone while ramping), every sinc window must hold consecutive supplied frames. non-trivial = >= 1 accepted ratio change followed by >= 2 processing calls. distinct = distinct case JSON digest.".into()
    }
    fn assumptions(&self) -> Vec<String> {
        vec![
            "f64 only (the index signal needs the mantissa); nearest-neighbour modes are excluded (the output is then not the instant)".into(),
            "ratio changes of the fixed-input types stay in the benign envelope (DESIGN §6); their ramps get the bounded overshoot allowance (n_out - N + 1)|inc| of known finding D9".into(),
        ]
    }
    fn strategy(&self, tier: Tier) -> BoxedStrategy<Case> {
        let th = tier.thorough();
        let max_ops = if th { 80 } else { 30 };
        let op = prop_oneof![
            6 => Just(Op::Process { path: Path::Pib, slack_in: 0, slack_out: 0, mask: None }),
            4 => (prop_oneof![1 => Just(-1.0f64), 1 => Just(1.0f64), 1 => Just(0.0f64), 4 => -1.0f64..=1.0], any::<bool>(), any::<bool>()).prop_map(|(pos, relative, ramp)| Op::SetRatio { pos, relative, ramp }),
            1 => any::<u16>().prop_map(|frac| Op::SetChunk { frac }),
        ];
        (0usize..4, ratio_strategy(), max_rel_strategy(16.0), chunk_strategy(if th { 2048 } else { 512 }), 0u8..4, 0u8..3, prop_oneof![Just(8usize), Just(16usize), 8usize..=128], prop_oneof![1 => Just(1usize), 1 => Just(2usize), 3 => 1usize..=64], proptest::collection::vec(op, 3..=max_ops), prop_oneof![2 => Just(1usize), 1 => Just(2usize), 1 => Just(3usize)])
            .prop_map(move |(k, ratio, max_rel, chunk, degree, interp, sinc_len, os, ops, nch)| {
                let kind = [Kind::FastIn, Kind::FastOut, Kind::SincIn, Kind::SincOut][k];
                // polynomial types: up to three channels carrying the same index signal, measured on the last one
                // (the probe of the sinc types logs per call and is used with one channel)
                let channels = if kind.is_sinc() { 1 } else { nch };
                let mut cfg = Config { kind, f32: false, ratio, max_rel, chunk, channels, degree, interp, sinc_len, os, kernel: if kind.is_sinc() { Kernel::LinearProbe } else { Kernel::Dispatch }, ..Config::default() };
                // bound the work (frames per call at the largest reachable ratio)
                let calls = ops.iter().filter(|o| o.is_call()).count().max(1) as f64;
                let per = if kind.is_sinc() { 40.0 } else { 16.0 };
                let budget = if th { 3e7 } else { 3e6 };
                loop {
                    let frames = if kind.fixed_in() { cfg.chunk as f64 * ratio * max_rel } else { cfg.chunk as f64 * (1.0 + max_rel / ratio) };
                    if frames * per * calls <= budget || cfg.chunk == 1 {
                        break;
                    }
                    cfg.chunk = (cfg.chunk / 2).max(1);
                }
                Case { cfg, ops, envelope: true, strict_ramp: std::env::var("RV_STRICT_RAMP").is_ok() }
            })
            .boxed()
    }
    fn cases(&self, tier: Tier) -> u32 {
        if tier.thorough() {
            6_000_000
        } else {
            80_000
        }
    }
    fn run(&self, c: &Case) -> Outcome {
        run(c)
    }
    fn health(&self, a: &Aggregate) -> Option<String> {
        if a.evaluations > 1000 && (a.distinct.len() as u64) * 4 < a.evaluations {
            return Some(format!("only {} of {} cases were non-trivial", a.distinct.len(), a.evaluations));
        }
        None
    }
}
