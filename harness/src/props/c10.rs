//! C10 — reset() returns the resampler to its freshly-constructed behaviour.
use crate::cfg::{config_strategy, CfgSpace, Config, Kernel, Kind};
use crate::dynres::SampleX;
use crate::engine::{Aggregate, Outcome, Property, Tier};
use crate::hist::{call_cost, ops_strategy, HistOpts, Interp, Op, OpSpace, Path, Step, StepRes, Trace};
use crate::signal::Signal;
use proptest::prelude::*;
use serde::{Deserialize, Serialize};

#[derive(Clone, Debug, Serialize, Deserialize)]
pub struct Case {
    pub cfg: Config,
    pub seed: u64,
    pub prefix: Vec<Op>,
    /// inject one failing (malformed) call at the end of the prefix
    pub failed_call: bool,
    pub suffix: Vec<Op>,
}

pub struct C10;

pub fn new_trace<T>() -> Trace<T> {
    Trace { built_err: None, initial: None, steps: vec![], proposals: 0, envelope_altered: 0, envelope_skipped: 0, stuck: false, model_checked: 0, model_mismatch: 0, model_mismatch_at: None, probe: None, calls: 0, total_in: 0, total_out: 0 }
}

pub fn steps_diff<T: SampleX>(a: &Step<T>, b: &Step<T>) -> Option<String> {
    if a.res != b.res {
        return Some(format!("results differ: {:?} vs {:?}", a.res, b.res));
    }
    if a.before != b.before {
        return Some(format!("getters before differ: {:?} vs {:?}", a.before, b.before));
    }
    if a.after != b.after {
        return Some(format!("getters after differ: {:?} vs {:?}", a.after, b.after));
    }
    if a.written != b.written {
        return Some(format!("written counts differ: {:?} vs {:?}", a.written, b.written));
    }
    if a.out.len() != b.out.len() {
        return Some("output channel counts differ".into());
    }
    for (c, (x, y)) in a.out.iter().zip(&b.out).enumerate() {
        if x.len() != y.len() {
            return Some(format!("channel {} output lengths differ {} vs {}", c, x.len(), y.len()));
        }
        for (i, (u, v)) in x.iter().zip(y).enumerate() {
            if u.bits() != v.bits() {
                return Some(format!("channel {} frame {}: {:?} vs {:?}", c, i, u, v));
            }
        }
    }
    None
}

fn run_t<T: SampleX>(c0: &Case) -> Outcome {
    let mut o = Outcome::default();
    let (cfg, excl) = c0.cfg.sanitized();
    for l in excl {
        o.class(l);
    }
    let kind = cfg.kind;
    o.class(format!("kind:{}", kind.name()));
    let opts = HistOpts { envelope: true, record_out: true, quant32: false, stop_on_err: true };
    let sig = Signal::Noise { seed: c0.seed, amp: 1.0 };
    let (mut a, mut b) = match (Interp::<T>::new(&cfg, &opts), Interp::<T>::new(&cfg, &opts)) {
        (Ok(a), Ok(b)) => (a, b),
        _ => {
            o.fail(format!("construct-rejected:{}", kind.name()), "constructor rejected a valid configuration");
            return o;
        }
    };
    let fresh = b.res.getters();
    let (mut ta, mut tb) = (new_trace::<T>(), new_trace::<T>());
    let (mut calls, mut dirt) = (0, 0);
    for (i, op) in c0.prefix.iter().enumerate() {
        let n0 = ta.steps.len();
        a.step(i, op, &sig, &mut ta);
        if ta.stuck {
            ta.stuck = false;
            o.class("prefix-left-envelope");
            break;
        }
        if ta.steps.len() > n0 {
            let s = ta.steps.last().unwrap();
            match &s.res {
                StepRes::Call(Ok(_)) => {
                    calls += 1;
                    if s.partial || s.masked_call {
                        dirt += 1;
                        o.class(if s.partial { "dirt:partial" } else { "dirt:mask" });
                    }
                }
                StepRes::Call(Err(_)) => break,
                StepRes::Set(Ok(())) => {
                    dirt += 1;
                    o.class(if s.ratio_set.map(|r| r.1).unwrap_or(false) { "dirt:pending-ramp-or-ratio" } else if s.chunk_set.is_some() { "dirt:chunk" } else { "dirt:ratio" });
                }
                _ => {}
            }
        }
    }
    if c0.failed_call {
        let inp: Vec<Vec<T>> = vec![];
        let mut out: Vec<Vec<T>> = vec![];
        let r = a.res.pib(&inp, &mut out, Some(&vec![false; cfg.channels]));
        if r.is_err() {
            o.class("dirt:failed-call");
            dirt += 1;
        }
    }
    a.res.rst();
    a.pos = 0;
    a.cur_target = cfg.ratio;
    if let Some(m) = a.model.as_mut() {
        m.reset();
    }
    let after_reset = a.res.getters();
    if after_reset != fresh {
        let which = if after_reset.in_next != fresh.in_next { "in_next" } else if after_reset.out_next != fresh.out_next { "out_next" } else { "other" };
        o.fail(format!("getters-after-reset:{}:{}", kind.name(), which), format!("after reset {:?}, freshly constructed {:?}", after_reset, fresh));
        return o;
    }
    let tail = Op::Process { path: Path::Pib, slack_in: 0, slack_out: 0, mask: None };
    let mut compared = 0;
    for (j, op) in c0.suffix.iter().chain([&tail, &tail]).enumerate() {
        let (na, nb) = (ta.steps.len(), tb.steps.len());
        a.step(j, op, &sig, &mut ta);
        b.step(j, op, &sig, &mut tb);
        if ta.stuck != tb.stuck {
            o.fail(format!("diverged:{}", kind.name()), "envelope state differs between the reset instance and the fresh one");
            return o;
        }
        if ta.stuck {
            break;
        }
        if (ta.steps.len() > na) != (tb.steps.len() > nb) {
            o.fail(format!("diverged:{}", kind.name()), "one instance skipped an operation");
            return o;
        }
        if ta.steps.len() > na {
            if let Some(d) = steps_diff(ta.steps.last().unwrap(), tb.steps.last().unwrap()) {
                let is_call = matches!(ta.steps.last().unwrap().res, StepRes::Call(_));
                o.fail(format!("differs-from-fresh:{}:{}", kind.name(), if is_call { "call" } else { "control" }), format!("suffix op {} ({:?}) on the reset instance differs from the fresh twin: {}", j, op, d));
                return o;
            }
            if matches!(ta.steps.last().unwrap().res, StepRes::Call(Ok(_))) {
                compared += 1;
            }
            if matches!(ta.steps.last().unwrap().res, StepRes::Call(Err(_))) {
                break;
            }
        }
    }
    o.count("suffix_calls_compared", compared);
    o.nontrivial = calls >= 1 && dirt >= 1 && compared >= 1;
    o
}

impl Property for C10 {
    type Case = Case;
    fn id(&self) -> &'static str {
        "C10"
    }
    fn rule(&self) -> String {
        "cases = configuration (a third with a ratio making chunk/ratio an integer up to rounding), dirty prefix history (ratio changes incl. pending ramps, chunk changes, masks, partial calls, optionally a failed call), reset(), common suffix on the reset instance and on a fresh twin fed the same samples; getters compared after reset and every suffix step compared bit-for-bit. non-trivial = prefix with >= 1 processing call and >= 1 of {ratio change, chunk change, mask, partial, failed call}, and >= 1 compared suffix call. distinct = distinct case JSON digest.".into()
    }
    fn assumptions(&self) -> Vec<String> {
        vec!["prefix histories stay inside the benign envelope of DESIGN §6 (a prefix that leaves it is cut there; reset is still exercised)".into()]
    }
    fn strategy(&self, tier: Tier) -> BoxedStrategy<Case> {
        let mut sp = CfgSpace::histories(tier.thorough());
        sp.max_sinc_len = if tier.thorough() { 256 } else { 128 };
        sp.max_chunk = if tier.thorough() { 2048 } else { 768 };
        (config_strategy(sp), any::<u64>(), ops_strategy(OpSpace::all(), 12), any::<bool>(), ops_strategy(OpSpace::all(), 8), prop_oneof![2 => Just(None), 1 => (1usize..=4096).prop_map(Some)])
            .prop_map(|(mut cfg, seed, prefix, failed_call, suffix, k)| {
                while call_cost(&cfg) * 24.0 > 6e6 && cfg.chunk > 1 {
                    cfg.chunk = (cfg.chunk / 2).max(1);
                }
                if let (Some(k), true) = (k, cfg.kind.is_async()) {
                    // chunk / ratio == k up to rounding (the trigger of differently rounded size formulas)
                    let r = cfg.chunk as f64 / k as f64;
                    if (1.0 / 64.0..=64.0).contains(&r) {
                        cfg.ratio = r;
                    }
                }
                Case { cfg, seed, prefix, failed_call, suffix }
            })
            .boxed()
    }
    fn cases(&self, tier: Tier) -> u32 {
        if tier.thorough() {
            4_000_000
        } else {
            60_000
        }
    }
    fn forced(&self, _tier: Tier) -> Vec<Case> {
        // awkward ratios x chunk sizes where chunk/ratio is within rounding of an integer
        let mut v = vec![];
        let p = Op::Process { path: Path::Pib, slack_in: 0, slack_out: 0, mask: None };
        for (ratio, chunk, sinc_len) in [(0.35, 644, 112), (0.7, 672, 88), (0.35, 7, 64), (0.7, 7, 64), (0.1, 1, 64), (0.3, 3, 8), (1.0 / 3.0, 5, 16), (0.9, 9, 8), (1.1, 11, 24)] {
            for kind in [Kind::SincOut, Kind::FastOut, Kind::SincIn, Kind::FastIn] {
                for f32 in [false, true] {
                    let cfg = Config { kind, f32, ratio, chunk, sinc_len, os: 4, interp: 2, kernel: Kernel::Dispatch, max_rel: 1.5, ..Config::default() };
                    v.push(Case { cfg, seed: 7, prefix: vec![p.clone(), Op::SetRatio { pos: 0.5, relative: true, ramp: true }, p.clone()], failed_call: false, suffix: vec![] });
                }
            }
        }
        v
    }
    fn run(&self, c: &Case) -> Outcome {
        if c.cfg.f32 {
            run_t::<f32>(c)
        } else {
            run_t::<f64>(c)
        }
    }
    fn health(&self, a: &Aggregate) -> Option<String> {
        if a.evaluations > 1000 && (a.distinct.len() as u64) * 4 < a.evaluations {
            return Some(format!("only {} of {} cases were non-trivial", a.distinct.len(), a.evaluations));
        }
        None
    }
}
