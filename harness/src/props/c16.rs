//! C16 — convenience wrappers equal the core call; partial processing equals zero-padding;
//! the object-safe VecResampler wrapper forwards unchanged.
use crate::cfg::{build_vec, config_strategy, CfgSpace, Config, Kernel};
use crate::dynres::{SampleX, ViaVec};
use crate::engine::{Aggregate, Outcome, Property, Tier};
use crate::hist::{call_cost, ops_strategy, HistOpts, Interp, Op, OpSpace, Path, StepRes};
use crate::props::c10::{new_trace, steps_diff};
use crate::signal::Signal;
use proptest::prelude::*;
use serde::{Deserialize, Serialize};

#[derive(Clone, Debug, Serialize, Deserialize)]
pub struct Case {
    pub cfg: Config,
    pub seed: u64,
    pub ops: Vec<Op>,
    /// drive the wrapper side through Box<dyn VecResampler<T>>
    pub via_vec: bool,
    /// number of process_partial(None) flush calls appended
    pub flush: u8,
}

pub struct C16;

/// the core-path equivalent of a wrapper op
fn core_of(op: &Op) -> Op {
    match op {
        Op::Process { slack_in, slack_out, mask, .. } => Op::Process { path: Path::Pib, slack_in: *slack_in, slack_out: *slack_out, mask: *mask },
        Op::Partial { frac, slack_out, mask, .. } => Op::Padded { frac: *frac, slack_out: *slack_out, mask: *mask },
        o => o.clone(),
    }
}

fn run_t<T: SampleX>(c0: &Case) -> Outcome {
    let mut o = Outcome::default();
    let (mut cfg, excl) = c0.cfg.sanitized();
    for l in excl {
        o.class(l);
    }
    if c0.via_vec {
        cfg.kernel = Kernel::Dispatch;
        o.class("via:Box<dyn VecResampler>");
    }
    let kind = cfg.kind;
    o.class(format!("kind:{}", kind.name()));
    let opts = HistOpts { envelope: true, record_out: true, quant32: false, stop_on_err: true };
    let sig = Signal::Noise { seed: c0.seed, amp: 1.0 };
    let a = if c0.via_vec { build_vec::<T>(&cfg).map(|b| Interp::from_res(&cfg, &opts, Box::new(ViaVec(b)))) } else { Interp::<T>::new(&cfg, &opts) };
    let (mut a, mut b) = match (a, Interp::<T>::new(&cfg, &opts)) {
        (Ok(a), Ok(b)) => (a, b),
        _ => {
            o.fail(format!("construct-rejected:{}", kind.name()), "constructor rejected a valid configuration");
            return o;
        }
    };
    if a.res.getters() != b.res.getters() {
        o.fail(format!("getters:{}", kind.name()), format!("wrapper side {:?} vs direct {:?}", a.res.getters(), b.res.getters()));
        return o;
    }
    // the allocation helpers are forwarded like everything else: same shapes through the wrapper
    let shape = |v: Vec<Vec<T>>| -> Vec<(usize, usize)> { v.iter().map(|c| (c.len(), c.capacity())).collect() };
    for filled in [true, false] {
        let (ia, ib) = (shape(a.res.in_alloc(filled)), shape(b.res.in_alloc(filled)));
        let (oa, ob) = (shape(a.res.out_alloc(filled)), shape(b.res.out_alloc(filled)));
        if ia != ib || oa != ob {
            o.fail(
                format!("buffer-allocate:{}:{}", kind.name(), if ia != ib { "input" } else { "output" }),
                format!("{}_buffer_allocate({}) gives (len, capacity) per channel {:?} on the wrapper side, {:?} directly", if ia != ib { "input" } else { "output" }, filled, if ia != ib { &ia } else { &oa }, if ia != ib { &ib } else { &ob }),
            );
            return o;
        }
    }
    let (mut ta, mut tb) = (new_trace::<T>(), new_trace::<T>());
    let flush = Op::Partial { path: Path::Alloc, frac: None, slack_out: 0, mask: None };
    let flush2 = Op::Partial { path: Path::Pib, frac: None, slack_out: 0, mask: None };
    let tail: Vec<Op> = (0..c0.flush).map(|i| if i % 2 == 0 { flush.clone() } else { flush2.clone() }).collect();
    let (mut full_calls, mut partial_mid, mut wrapper_calls) = (0, 0, 0);
    for (i, op) in c0.ops.iter().chain(tail.iter()).enumerate() {
        if c0.via_vec && matches!(op, Op::Reset | Op::SetChunk { .. } | Op::SetChunkRaw { .. }) {
            continue;
        }
        let (na, nb) = (ta.steps.len(), tb.steps.len());
        a.step(i, op, &sig, &mut ta);
        b.step(i, &core_of(op), &sig, &mut tb);
        if ta.stuck != tb.stuck {
            o.fail(format!("diverged:{}", kind.name()), "envelope state differs between the two sides");
            return o;
        }
        if ta.stuck {
            break;
        }
        if (ta.steps.len() > na) != (tb.steps.len() > nb) {
            o.fail(format!("diverged:{}", kind.name()), "one side skipped an operation");
            return o;
        }
        if ta.steps.len() == na {
            continue;
        }
        let (sa, sb) = (ta.steps.last().unwrap(), tb.steps.last().unwrap());
        let what = match op {
            Op::Process { path: Path::Alloc, .. } => "process",
            Op::Partial { path: Path::Alloc, frac: None, .. } => "process_partial(None)",
            Op::Partial { path: Path::Alloc, .. } => "process_partial(Some)",
            Op::Partial { frac: None, .. } => "process_partial_into_buffer(None)",
            Op::Partial { .. } => "process_partial_into_buffer(Some)",
            Op::Process { .. } => "process_into_buffer",
            _ => "control",
        };
        if let StepRes::Call(Ok(_)) = sa.res {
            if !sa.count_known {
                // all channels masked in an allocating wrapper: every returned vector must be empty
                if sa.out.iter().any(|v| !v.is_empty()) {
                    o.fail(format!("masked-not-empty:{}", what), "allocating wrapper returned data for a masked channel");
                    return o;
                }
                continue;
            }
        }
        // masked channels: allocating wrappers return empty vectors
        if sa.path == Path::Alloc {
            for (ch, act) in sa.mask.iter().enumerate() {
                if !*act && sa.out.get(ch).map(|v| !v.is_empty()).unwrap_or(false) {
                    o.fail(format!("masked-not-empty:{}", what), format!("op {}: channel {} is masked but {} returned {} frames for it", i, ch, what, sa.out[ch].len()));
                    return o;
                }
            }
        }
        // compare results: the allocating path reports counts through vector lengths
        let mut sb2 = sb.clone();
        let mut sa2 = sa.clone();
        if sa.path == Path::Alloc {
            // `written` of the allocating path are the returned lengths; of the core path the frames written
            sa2.written = sa.written.clone();
            sb2.written = sb.written.clone();
        }
        sa2.before = sb2.before;
        sa2.after = sb2.after;
        if sa.before != sb.before || sa.after != sb.after {
            o.fail(format!("getters-differ:{}", what), format!("op {}: getters {:?}->{:?} vs core {:?}->{:?}", i, sa.before, sa.after, sb.before, sb.after));
            return o;
        }
        if let Some(d) = steps_diff(&sa2, &sb2) {
            o.fail(format!("differs-from-core:{}:{}", what, kind.name()), format!("op {} ({}): {}", i, what, d));
            return o;
        }
        if let StepRes::Call(Ok(_)) = sa.res {
            match op {
                Op::Partial { frac: Some(_), .. } if sa.before.in_next >= 2 => {
                    if full_calls >= 1 {
                        partial_mid += 1;
                    }
                    wrapper_calls += 1;
                    o.class(what);
                }
                Op::Partial { .. } | Op::Process { path: Path::Alloc, .. } => {
                    wrapper_calls += 1;
                    o.class(what);
                }
                _ => {}
            }
            if matches!(op, Op::Process { .. }) {
                full_calls += 1;
            }
        }
        if matches!(sa.res, StepRes::Call(Err(_))) {
            break;
        }
    }
    o.count("wrapper_calls_compared", wrapper_calls);
    o.nontrivial = partial_mid >= 1 || (c0.via_vec && wrapper_calls >= 1 && full_calls >= 1);
    o
}

impl Property for C16 {
    type Case = Case;
    fn id(&self) -> &'static str {
        "C16"
    }
    fn rule(&self) -> String {
        "cases = configuration, noise input, history in which processing goes through process(), process_partial(Some/None), process_partial_into_buffer(Some/None) (partial lengths 1..need-1, masks, ratio/chunk changes, resets in between, 0..6 flush calls at the end), half of them through Box<dyn VecResampler>; a twin executes the core equivalent (process_into_buffer on the same frames zero-padded) and every step is compared bit-for-bit (values, counts, getters; empty vectors for masked channels). non-trivial = a partial call with 0 < len < need after >= 1 full call (VecResampler cases: >= 1 wrapper call after a full call). distinct = distinct case JSON digest.".into()
    }
    fn assumptions(&self) -> Vec<String> {
        vec!["VecResampler has no reset / set_chunk_size: histories driven through it skip those operations".into()]
    }
    fn strategy(&self, tier: Tier) -> BoxedStrategy<Case> {
        let sp = CfgSpace::histories(tier.thorough());
        let mut osp = OpSpace::all();
        osp.reset = true;
        // bias towards the wrapper paths
        let wrapper_ops = prop_oneof![
            3 => ops_strategy(osp, 14),
            2 => proptest::collection::vec(
                prop_oneof![
                    2 => (any::<u16>(), crate::hist::mask_strategy(), any::<bool>()).prop_map(|(f, mask, p)| Op::Partial { path: if p { Path::Alloc } else { Path::Pib }, frac: Some(f), slack_out: 0, mask }),
                    1 => (crate::hist::mask_strategy(), any::<bool>()).prop_map(|(mask, p)| Op::Partial { path: if p { Path::Alloc } else { Path::Pib }, frac: None, slack_out: 0, mask }),
                    2 => crate::hist::mask_strategy().prop_map(|mask| Op::Process { path: Path::Alloc, slack_in: 0, slack_out: 0, mask }),
                    2 => Just(Op::Process { path: Path::Pib, slack_in: 0, slack_out: 0, mask: None }),
                    1 => (-1.0f64..=1.0, any::<bool>(), any::<bool>()).prop_map(|(pos, relative, ramp)| Op::SetRatio { pos, relative, ramp }),
                ],
                1..14
            ),
        ];
        (config_strategy(sp), any::<u64>(), wrapper_ops, any::<bool>(), 0u8..=6)
            .prop_map(|(mut cfg, seed, ops, via_vec, flush)| {
                let calls = (ops.iter().filter(|o| o.is_call()).count() + flush as usize).max(1) as f64;
                while call_cost(&cfg) * calls * 2.0 > 6e6 && cfg.chunk > 1 {
                    cfg.chunk = (cfg.chunk / 2).max(1);
                }
                Case { cfg, seed, ops, via_vec, flush }
            })
            .boxed()
    }
    fn cases(&self, tier: Tier) -> u32 {
        if tier.thorough() {
            4_000_000
        } else {
            60_000
        }
    }
    fn run(&self, c: &Case) -> Outcome {
        if c.cfg.f32 {
            run_t::<f32>(c)
        } else {
            run_t::<f64>(c)
        }
    }
    fn health(&self, a: &Aggregate) -> Option<String> {
        if a.evaluations > 1000 && (a.distinct.len() as u64) * 4 < a.evaluations {
            return Some(format!("only {} of {} cases were non-trivial", a.distinct.len(), a.evaluations));
        }
        None
    }
}
