//! C18 — resamplers are self-contained and deterministic across instances and threads.
use crate::cfg::{config_strategy, CfgSpace, Config};
use crate::dynres::{Getters, SampleX};
use crate::engine::{Aggregate, Outcome, Property, Tier};
use crate::hist::{call_cost, ops_strategy, HistOpts, Interp, Op, OpSpace, Step, StepRes, Trace};
use crate::props::c10::new_trace;
use crate::signal::{hash64, Signal};
use proptest::prelude::*;
use serde::{Deserialize, Serialize};
use std::sync::Barrier;

#[derive(Clone, Debug, Serialize, Deserialize)]
pub struct Inst {
    pub cfg: Config,
    pub seed: u64,
    pub ops: Vec<Op>,
    /// thread that executes op i (modulo the number of threads); construction uses entry 0
    pub threads: Vec<u8>,
    /// input amplitude 10^amp_exp (down to the subnormal range, where per-thread FPU modes matter)
    #[serde(default)]
    pub amp_exp: i16,
}

#[derive(Clone, Debug, Serialize, Deserialize)]
pub struct Case {
    pub n_threads: u8,
    pub instances: Vec<Inst>,
}

pub struct C18;

#[derive(Clone, Debug, PartialEq)]
struct Digest {
    res: StepRes,
    before: Getters,
    after: Getters,
    written: Vec<usize>,
    out_hash: u64,
}

fn digest_hash(d: &Digest) -> u64 {
    let mut h = hash64(d.out_hash ^ 0x51ed);
    h = hash64(h ^ crate::engine::fnv(&format!("{:?}{:?}{:?}{:?}", d.res, d.before, d.after, d.written)));
    h
}

/// `rv lone`: run one instance alone in this (fresh) process and print one hash per step
pub fn lone_main() {
    let mut line = String::new();
    std::io::stdin().read_line(&mut line).expect("stdin");
    let inst: Inst = serde_json::from_str(&line).expect("instance json");
    let cfg = inst.cfg.sanitized().0;
    let sig = Signal::Noise { seed: inst.seed, amp: 10f64.powi(inst.amp_exp as i32) };
    let opts = HistOpts { envelope: true, record_out: true, quant32: false, stop_on_err: false };
    let mut a = Any::new(cfg.f32);
    if let Err(e) = a.construct(&cfg, &opts) {
        println!("ERR {}", e);
        return;
    }
    for (i, op) in inst.ops.iter().enumerate() {
        a.step(i, op, &sig);
    }
    let v: Vec<u64> = a.digests().iter().map(digest_hash).collect();
    println!("{}", serde_json::to_string(&v).unwrap());
}

fn lone_in_fresh_process(inst: &Inst) -> Result<Vec<u64>, String> {
    use std::io::Write;
    use std::process::{Command, Stdio};
    let mut child = Command::new(std::env::current_exe().map_err(|e| e.to_string())?).arg("lone").arg("C18").stdin(Stdio::piped()).stdout(Stdio::piped()).stderr(Stdio::null()).spawn().map_err(|e| e.to_string())?;
    {
        let mut si = child.stdin.take().unwrap();
        writeln!(si, "{}", serde_json::to_string(inst).unwrap()).map_err(|e| e.to_string())?;
    }
    let out = child.wait_with_output().map_err(|e| e.to_string())?;
    let text = String::from_utf8_lossy(&out.stdout);
    let line = text.lines().next().unwrap_or("");
    if line.starts_with("ERR") || line.is_empty() {
        return Err(format!("lone run failed: {} (status {:?})", line, out.status));
    }
    serde_json::from_str(line).map_err(|e| e.to_string())
}

fn digest<T: SampleX>(s: &Step<T>) -> Digest {
    let mut h = 0x1234_5678u64;
    for ch in &s.out {
        h = hash64(h ^ ch.len() as u64);
        for v in ch {
            h = hash64(h ^ v.bits());
        }
    }
    Digest { res: s.res.clone(), before: s.before, after: s.after, written: s.written.clone(), out_hash: h }
}

enum Any {
    F32(Option<Interp<f32>>, Trace<f32>),
    F64(Option<Interp<f64>>, Trace<f64>),
}

impl Any {
    fn new(f32: bool) -> Any {
        if f32 {
            Any::F32(None, new_trace())
        } else {
            Any::F64(None, new_trace())
        }
    }
    fn construct(&mut self, cfg: &Config, opts: &HistOpts) -> Result<(), String> {
        match self {
            Any::F32(i, _) => *i = Some(Interp::new(cfg, opts)?),
            Any::F64(i, _) => *i = Some(Interp::new(cfg, opts)?),
        }
        Ok(())
    }
    fn step(&mut self, i: usize, op: &Op, sig: &Signal) {
        match self {
            Any::F32(it, tr) => {
                if !tr.stuck {
                    it.as_mut().unwrap().step(i, op, sig, tr);
                }
            }
            Any::F64(it, tr) => {
                if !tr.stuck {
                    it.as_mut().unwrap().step(i, op, sig, tr);
                }
            }
        }
    }
    fn digests(&self) -> Vec<Digest> {
        match self {
            Any::F32(_, tr) => tr.steps.iter().map(digest).collect(),
            Any::F64(_, tr) => tr.steps.iter().map(digest).collect(),
        }
    }
}

type InstRef<'a> = (Config, Signal, &'a Inst);

/// round r executes op r-1 of every instance (round 0: construction), each on its assigned thread, all threads
/// of a round released together by a barrier; returns the instances, the number of rounds with >= 2 busy
/// threads and the number of thread migrations
fn scheduled(insts: &[InstRef], nthreads: usize, opts: &HistOpts) -> Result<(Vec<Any>, u64, u64), String> {
    // scheduled run: round r executes op r-1 of every instance (round 0: construction), each on its assigned thread,
    // all threads of a round released together by a barrier
    let mut live: Vec<Any> = insts.iter().map(|(cfg, _, _)| Any::new(cfg.f32)).collect();
    let rounds = 1 + insts.iter().map(|(_, _, i)| i.ops.len()).max().unwrap_or(0);
    let mut concurrent_rounds = 0u64;
    let mut migrations = 0u64;
    let mut last_thread: Vec<Option<usize>> = vec![None; insts.len()];
    for r in 0..rounds {
        let mut per_thread: Vec<Vec<(usize, &mut Any)>> = (0..nthreads).map(|_| vec![]).collect();
        for (k, a) in live.iter_mut().enumerate() {
            let inst = insts[k].2;
            if r > inst.ops.len() {
                continue;
            }
            let t = inst.threads.get(r).copied().unwrap_or(k as u8) as usize % nthreads;
            if let Some(lt) = last_thread[k] {
                if lt != t {
                    migrations += 1;
                }
            }
            last_thread[k] = Some(t);
            per_thread[t].push((k, a));
        }
        let busy = per_thread.iter().filter(|v| !v.is_empty()).count();
        if busy >= 2 {
            concurrent_rounds += 1;
        }
        let barrier = Barrier::new(busy.max(1));
        let errs = std::sync::Mutex::new(Vec::<String>::new());
        std::thread::scope(|s| {
            for list in per_thread.into_iter().filter(|v| !v.is_empty()) {
                let barrier = &barrier;
                let insts = &insts;
                let errs = &errs;
                let opts = &opts;
                s.spawn(move || {
                    barrier.wait();
                    for (k, a) in list {
                        let (cfg, sig, inst) = &insts[k];
                        if r == 0 {
                            if let Err(e) = a.construct(cfg, opts) {
                                errs.lock().unwrap().push(e);
                            }
                        } else {
                            a.step(r - 1, &inst.ops[r - 1], sig);
                        }
                    }
                });
            }
        });
        if let Some(e) = errs.into_inner().unwrap().pop() {
            return Err(e);
        }
    }
    Ok((live, concurrent_rounds, migrations))
}

/// `rv sched`: run the schedule of one case in this (fresh) process, nothing else before it; prints one hash
/// list per instance
pub fn sched_main() {
    let mut line = String::new();
    std::io::stdin().read_line(&mut line).expect("stdin");
    let c: Case = serde_json::from_str(&line).expect("case json");
    let opts = HistOpts { envelope: true, record_out: true, quant32: false, stop_on_err: false };
    let nthreads = (c.n_threads as usize).clamp(1, 16);
    let insts: Vec<InstRef> = c.instances.iter().map(|i| (i.cfg.sanitized().0, Signal::Noise { seed: i.seed, amp: 10f64.powi(i.amp_exp as i32) }, i)).collect();
    match scheduled(&insts, nthreads, &opts) {
        Ok((live, _, _)) => {
            let v: Vec<Vec<u64>> = live.iter().map(|a| a.digests().iter().map(digest_hash).collect()).collect();
            println!("{}", serde_json::to_string(&v).unwrap());
        }
        Err(e) => println!("ERR {}", e),
    }
}

fn sched_in_fresh_process(c: &Case) -> Result<Vec<Vec<u64>>, String> {
    use std::io::Write;
    use std::process::{Command, Stdio};
    let mut child = Command::new(std::env::current_exe().map_err(|e| e.to_string())?).arg("sched").arg("C18").stdin(Stdio::piped()).stdout(Stdio::piped()).stderr(Stdio::null()).spawn().map_err(|e| e.to_string())?;
    {
        let mut si = child.stdin.take().unwrap();
        writeln!(si, "{}", serde_json::to_string(c).unwrap()).map_err(|e| e.to_string())?;
    }
    let out = child.wait_with_output().map_err(|e| e.to_string())?;
    let text = String::from_utf8_lossy(&out.stdout);
    let line = text.lines().next().unwrap_or("");
    if line.starts_with("ERR") || line.is_empty() {
        return Err(format!("scheduled run in a fresh process failed: {} (status {:?})", line, out.status));
    }
    serde_json::from_str(line).map_err(|e| e.to_string())
}

fn run(c: &Case) -> Outcome {
    let mut o = Outcome::default();
    let opts = HistOpts { envelope: true, record_out: true, quant32: false, stop_on_err: false };
    let nthreads = (c.n_threads as usize).clamp(1, 16);
    let insts: Vec<InstRef> = c.instances.iter().map(|i| (i.cfg.sanitized().0, Signal::Noise { seed: i.seed, amp: 10f64.powi(i.amp_exp as i32) }, i)).collect();
    o.class(format!("threads:{}", nthreads));
    o.class(format!("instances:{}", insts.len()));
    // reference: every instance alone, each on a thread of its own that has done nothing else
    let mut reference = vec![];
    for (cfg, sig, inst) in &insts {
        let r: Result<Vec<Digest>, String> = std::thread::scope(|s| {
            s.spawn(|| {
                let mut a = Any::new(cfg.f32);
                a.construct(cfg, &opts)?;
                for (i, op) in inst.ops.iter().enumerate() {
                    a.step(i, op, sig);
                }
                Ok(a.digests())
            })
            .join()
            .unwrap_or_else(|_| Err("reference run panicked".to_string()))
        });
        match r {
            Ok(d) => reference.push(d),
            Err(e) => {
                o.fail("construct-rejected", e);
                return o;
            }
        }
        o.class(format!("kind:{}", cfg.kind.name()));
        if inst.amp_exp < -30 {
            o.class("signal:subnormal-range");
        }
    }
    // scheduled run: in this worker process (which has already constructed and run resamplers: the references
    // above and all earlier cases), and for a quarter of the cases also in a pristine process, where the
    // scheduled run itself is the first use of the library (first-use initialisation raced by several threads)
    let (live, concurrent_rounds, migrations) = match scheduled(&insts, nthreads, &opts) {
        Ok(x) => x,
        Err(e) => {
            o.fail("construct-rejected", e);
            return o;
        }
    };
    for (k, a) in live.iter().enumerate() {
        let d = a.digests();
        if d != reference[k] {
            let at = d.iter().zip(&reference[k]).position(|(x, y)| x != y);
            let what = match at {
                Some(i) => {
                    let (x, y) = (&d[i], &reference[k][i]);
                    if x.res != y.res || x.before != y.before || x.after != y.after {
                        "counts-or-getters"
                    } else {
                        "samples"
                    }
                }
                None => "length",
            };
            o.fail(
                format!("schedule-dependent:{}:{}", insts[k].0.kind.name(), what),
                format!("instance {} ({}) differs from its single-threaded run at step {:?} when run with {} other instances on {} threads", k, insts[k].0.kind.name(), at, insts.len() - 1, nthreads),
            );
            return o;
        }
    }
    // a quarter of the cases: the same schedule executed in a pristine process must give the same results
    if crate::engine::fnv(&serde_json::to_string(c).unwrap_or_default()) % 4 == 0 {
        match sched_in_fresh_process(c) {
            Ok(v) => {
                for (k, hs) in v.iter().enumerate() {
                    let want: Vec<u64> = reference[k].iter().map(digest_hash).collect();
                    if *hs != want {
                        let at = hs.iter().zip(&want).position(|(x, y)| x != y);
                        o.fail(
                            format!("first-use-dependent:{}", insts[k].0.kind.name()),
                            format!("instance {} ({}) differs at step {:?} from its single-threaded run when the schedule ({} instances, {} threads) is the first use of the library in a fresh process", k, insts[k].0.kind.name(), at, insts.len(), nthreads),
                        );
                        return o;
                    }
                }
                o.class("schedule also executed in a pristine process");
                o.count("fresh_process_schedules", 1);
            }
            Err(e) => {
                o.fail("harness:sched-run", e);
                return o;
            }
        }
    }
    // one instance per case is also compared with a run alone in a pristine process: process-wide state
    // (a static scratch buffer, a lazily filled table) that earlier resamplers left behind shows here
    if !insts.is_empty() {
        let k = (crate::engine::fnv(&format!("{:?}", c.n_threads)) as usize + insts.len() * 7 + insts[0].2.ops.len()) % insts.len();
        match lone_in_fresh_process(insts[k].2) {
            Ok(h) => {
                let mine: Vec<u64> = live[k].digests().iter().map(digest_hash).collect();
                if h != mine {
                    let at = h.iter().zip(&mine).position(|(x, y)| x != y);
                    o.fail(format!("process-state-dependent:{}", insts[k].0.kind.name()), format!("instance {} ({}) differs at step {:?} from the same history run alone in a fresh process", k, insts[k].0.kind.name(), at));
                    return o;
                }
                o.count("fresh_process_references", 1);
            }
            Err(e) => {
                o.fail("harness:lone-run", e);
                return o;
            }
        }
    }
    o.count("rounds_with_concurrency", concurrent_rounds);
    o.count("migrations", migrations);
    o.count("instance_histories", insts.len() as u64);
    o.nontrivial = insts.len() >= 2 && concurrent_rounds >= 2;
    if migrations >= 1 {
        o.class("with-migration");
    }
    o
}

impl Property for C18 {
    type Case = Case;
    fn id(&self) -> &'static str {
        "C18"
    }
    fn rule(&self) -> String {
        "cases = 2..16 resampler instances (all types, f32/f64) with their own histories and a schedule assigning the construction and every call of every instance to one of 1..16 OS threads; round r runs call r of all instances concurrently (barrier release), so instances overlap with each other and migrate between threads at call boundaries. Every instance's per-step results, getters and output bits must equal those of the same history run alone on a thread of its own, and for one instance per case also those of a run alone in a pristine process. A third of the instances are near-twins of their predecessor (same parameters, ratio differing in the 6th or 10th digit, constructed on the same thread right after it); input amplitudes range down to the subnormal range. non-trivial = >= 2 instances and >= 2 rounds with at least two busy threads (cases with >= 1 migration are counted as a class). A third of the cases are homogeneous: every instance has the first one's configuration and a thread of its own. distinct = distinct case JSON digest.".into()
    }
    fn assumptions(&self) -> Vec<String> {
        vec!["the harness decides which thread runs which call and what overlaps, not the instruction-level interleaving; a race needing a narrow window can be missed (exploration only)".into()]
    }
    fn isolated(&self) -> bool {
        true
    }
    fn rerun_attempts(&self) -> u32 {
        // a schedule-dependent failure shows in some executions of a case only
        40
    }
    fn strategy(&self, tier: Tier) -> BoxedStrategy<Case> {
        let th = tier.thorough();
        let mut sp = CfgSpace::histories(th);
        sp.max_chunk = 256;
        sp.max_sinc_len = 64;
        sp.max_fft_block = 256;
        let inst = (config_strategy(sp), any::<u64>(), ops_strategy(OpSpace::all(), if th { 24 } else { 10 }), proptest::collection::vec(any::<u8>(), 26)).prop_map(|(mut cfg, seed, ops, threads)| {
            let calls = ops.iter().filter(|o| o.is_call()).count().max(1) as f64;
            while call_cost(&cfg) * calls > 5e5 && cfg.chunk > 1 {
                cfg.chunk = (cfg.chunk / 2).max(1);
            }
            // one sinc instance in sixteen gets a table of 2^16 points (64 x 1024): large tables are where an
            // implementation is tempted to build with helper threads or to cache
            if cfg.kind.is_sinc() && threads.get(1).copied().unwrap_or(1) % 16 == 0 {
                cfg.sinc_len = 64;
                cfg.os = 1024;
            }
            Inst { cfg, seed, ops, threads, amp_exp: 0 }
        });
        let amp = prop_oneof![4 => Just(0i16), 1 => Just(-30i16), 1 => Just(-38i16), 1 => Just(-41i16), 1 => Just(-308i16), 1 => Just(-315i16)];
        (prop_oneof![1 => 2u8..=4, 2 => 5u8..=16], proptest::collection::vec((inst, amp, 0u8..6), 2..=16), 0u8..3)
            .prop_map(|(n_threads, v, homogeneous)| {
                let mut instances: Vec<Inst> = vec![];
                for (mut inst, amp_exp, twin) in v {
                    inst.amp_exp = amp_exp;
                    // near-twins: the same parameters with a ratio that differs in the 6th..10th digit (or not at
                    // all), constructed on the same thread right after each other: state that leaks from one
                    // constructor to the next (a cached table, a memo) shows as a difference from the lone run
                    if twin < 2 {
                        if let Some(prev) = instances.last() {
                            let mut t = prev.clone();
                            t.cfg.ratio = prev.cfg.ratio * [1.0 + 1e-5, 1.0 + 1e-9][twin as usize];
                            t.seed = inst.seed;
                            t.ops = inst.ops.clone();
                            if let (Some(a), Some(b)) = (t.threads.get_mut(0), prev.threads.first()) {
                                *a = *b;
                            }
                            instances.push(t);
                            continue;
                        }
                    }
                    instances.push(inst);
                }
                // a third of the cases: every instance has the configuration of the first one (own signal and history)
                // and its own thread, so that the same code path runs on all threads at once - the situation in which a
                // process-wide scratch buffer or table shared by one resampler type is overwritten under its user
                if homogeneous == 0 {
                    let c0 = instances[0].cfg.clone();
                    for (k, i) in instances.iter_mut().enumerate() {
                        i.cfg = c0.clone();
                        for t in i.threads.iter_mut() {
                            *t = k as u8;
                        }
                    }
                }
                Case { n_threads, instances }
            })
            .boxed()
    }
    fn cases(&self, tier: Tier) -> u32 {
        if tier.thorough() {
            40_000
        } else {
            8_000
        }
    }
    fn run(&self, c: &Case) -> Outcome {
        run(c)
    }
    fn health(&self, a: &Aggregate) -> Option<String> {
        if a.evaluations > 100 && (a.distinct.len() as u64) * 2 < a.evaluations {
            return Some(format!("only {} of {} cases were non-trivial", a.distinct.len(), a.evaluations));
        }
        None
    }
}
