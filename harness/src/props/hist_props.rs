//! C03 (no UB / panic / spurious Err on valid histories), C04 (advertised frame counts) and
//! C09 (no heap traffic) share one history generator and interpreter; each has its own verdict.
use crate::cfg::{config_strategy, CfgSpace, Config, Kind};
use crate::dynres::SampleX;
use crate::engine::{Aggregate, Outcome, Property, Tier};
use crate::hist::{call_cost, ops_strategy, HistOpts, Op, OpSpace, Path, StepRes, Trace};
use crate::model::FftModel;
use crate::signal::Signal;
use proptest::prelude::*;
use serde::{Deserialize, Serialize};

#[derive(Clone, Debug, Serialize, Deserialize)]
pub struct HistCase {
    pub cfg: Config,
    pub seed: u64,
    pub ops: Vec<Op>,
    /// false only in known-finding replays (literal ratios, no envelope)
    pub envelope: bool,
    /// C09 only: the instance is driven through `Box<dyn VecResampler>`
    #[serde(default)]
    pub via_vec: bool,
}

#[derive(Clone, Copy, PartialEq)]
pub enum Which {
    C03,
    C04,
    C09,
}

pub struct HistProp(pub Which);

pub fn hist_case_strategy(tier: Tier, budget: f64, malformed: bool) -> BoxedStrategy<HistCase> {
    let max_ops = if tier.thorough() { 120 } else { 40 };
    (config_strategy(CfgSpace::histories(tier.thorough())), any::<u64>(), ops_strategy(OpSpace { malformed, ..OpSpace::all() }, max_ops))
        .prop_map(move |(mut cfg, seed, ops)| {
            let calls = ops.iter().filter(|o| o.is_call()).count().max(1) as f64;
            // bound the work per case by construction
            while call_cost(&cfg) * calls > budget && cfg.chunk > 1 {
                cfg.chunk = (cfg.chunk / 2).max(1);
            }
            HistCase { cfg, seed, ops, envelope: std::env::var("RV_NO_ENVELOPE").is_err(), via_vec: malformed && seed % 4 == 0 }
        })
        .boxed()
}

fn class_common<T>(o: &mut Outcome, c: &HistCase, tr: &Trace<T>) {
    o.class(format!("kind:{}", c.cfg.kind.name()));
    o.class(if c.cfg.f32 { "sample:f32" } else { "sample:f64" });
    if c.cfg.chunk <= 16 {
        o.class("chunk<=16");
    }
    if c.cfg.kind.is_sinc() {
        o.class(format!("kernel:{:?}", c.cfg.kernel));
    }
    for op in &c.ops {
        match op {
            Op::Process { path: Path::Alloc, .. } => o.class("op:process()"),
            Op::Process { mask: Some(_), .. } => o.class("op:process_into_buffer(mask)"),
            Op::Process { .. } => o.class("op:process_into_buffer"),
            Op::Partial { frac: None, .. } => o.class("op:partial(None)"),
            Op::Partial { .. } => o.class("op:partial(Some)"),
            Op::Padded { .. } => o.class("op:padded"),
            Op::SetRatio { ramp: true, .. } => o.class("op:set_ratio(ramp)"),
            Op::SetRatio { .. } | Op::SetRatioRaw { .. } => o.class("op:set_ratio(step)"),
            Op::SetChunk { .. } | Op::SetChunkRaw { .. } => o.class("op:set_chunk"),
            Op::Reset => o.class("op:reset"),
            Op::ShortOut { .. } => o.class("op:process_into_buffer(output too short)"),
        }
    }
    o.count("calls", tr.calls as u64);
    o.count("ratio_proposals", tr.proposals);
    o.count("envelope_altered", tr.envelope_altered);
    o.count("envelope_skipped", tr.envelope_skipped);
    o.count("histories_stuck", tr.stuck as u64);
    o.count("traces_validated_against_impl", tr.model_checked);
    o.count("model_frame_count_mismatch", tr.model_mismatch);
    if let Some(p) = &tr.probe {
        o.count("probe_calls", p.calls);
    }
}

fn run_t<T: SampleX>(w: Which, c0: &HistCase) -> Outcome {
    let mut o = Outcome::default();
    let (cfg, excl) = c0.cfg.sanitized();
    for l in excl {
        o.class(l);
    }
    let via_vec = c0.via_vec && w == Which::C09;
    let mut cfg = cfg;
    if via_vec {
        cfg.kernel = crate::cfg::Kernel::Dispatch;
        o.class("through Box<dyn VecResampler>");
    }
    let c = &HistCase { cfg, ..c0.clone() };
    let opts = HistOpts { envelope: c.envelope, record_out: false, quant32: false, stop_on_err: true };
    let sig = Signal::Noise { seed: c.seed, amp: 1.0 };
    let t0 = std::time::Instant::now();
    let tr = crate::hist::exec_history_with::<T>(&c.cfg, &sig, &c.ops, &opts, via_vec);
    if std::env::var("RV_TIMING").is_ok() {
        o.count(&format!("us:{}", c.cfg.kind.name()), t0.elapsed().as_micros() as u64);
    }
    class_common(&mut o, c, &tr);
    let kind = c.cfg.kind;
    if let Some(e) = &tr.built_err {
        o.fail(format!("construct-rejected:{}", kind.name()), format!("constructor rejected a valid configuration: {}", e));
        return o;
    }
    if std::env::var("RV_MODEL_STRICT").is_ok() {
        if let Some((op, want, got)) = tr.model_mismatch_at {
            o.fail("debug:model-mismatch", format!("op {}: model predicted {} frames, implementation produced {}", op, want, got));
            return o;
        }
    }
    // non-triviality
    let mut calls_seen = 0;
    let mut change_between = false;
    let mut pending_change = false;
    for s in &tr.steps {
        match &s.res {
            StepRes::Call(_) => {
                if calls_seen >= 1 && (pending_change || s.partial) {
                    change_between = true;
                }
                calls_seen += 1;
                pending_change = false;
            }
            _ => pending_change = true,
        }
    }
    match w {
        Which::C03 => {
            o.nontrivial = calls_seen >= 3 && change_between;
            for s in &tr.steps {
                if let StepRes::Call(Err(e)) = &s.res {
                    o.fail(format!("err:{}:{}", kind.name(), variant(e)), format!("processing call (op {}) on a valid history returned Err {:?}; getters before: {:?}", s.op, e, s.before));
                }
            }
            if let Some(p) = &tr.probe {
                if p.out_of_range > 0 {
                    o.fail(format!("probe-range:{}", kind.name()), format!("interpolator asked to read outside the buffer {} times", p.out_of_range));
                }
                if p.bad_sub > 0 {
                    o.fail(format!("probe-subindex:{}", kind.name()), format!("interpolator given a sub-filter index >= oversampling factor {} times", p.bad_sub));
                }
            }
        }
        Which::C04 => {
            // nontrivial: reaches a ratio within 1 % of an end of the range, or a chunk-size change, before a processing call
            let (lo, hi) = (c.cfg.ratio / c.cfg.max_rel, c.cfg.ratio * c.cfg.max_rel);
            let mut armed = false;
            for s in &tr.steps {
                if let Some((r, _)) = s.ratio_set {
                    if matches!(s.res, StepRes::Set(Ok(()))) && c.cfg.max_rel > 1.0 && (r <= lo * 1.01 || r >= hi / 1.01) {
                        armed = true;
                    }
                }
                if s.chunk_set.is_some() && matches!(s.res, StepRes::Set(Ok(()))) {
                    armed = true;
                }
                if matches!(s.res, StepRes::Call(Ok(_))) && armed {
                    o.nontrivial = true;
                }
            }
            if kind.is_fft() && calls_seen >= 3 {
                o.nontrivial = true;
            }
            let init = tr.initial.unwrap();
            let mut fm = FftModel::new(&c.cfg).filter(|m| m.fft_in > 0);
            if let Some(m) = &fm {
                if init.in_max != m.in_max() || init.out_max != m.out_max() {
                    o.fail(format!("fft-max:{}", kind.name()), format!("maxima ({},{}) differ from block arithmetic ({},{})", init.in_max, init.out_max, m.in_max(), m.out_max()));
                }
            }
            // buffers may have been obtained from the allocation helpers at any earlier point of the history:
            // the advertised need must stay within the smallest maximum reported so far
            let (mut min_in_max, mut min_out_max) = (init.in_max, init.out_max);
            for s in &tr.steps {
                for (tag, g) in [("before", &s.before), ("after", &s.after)] {
                    min_in_max = min_in_max.min(g.in_max);
                    min_out_max = min_out_max.min(g.out_max);
                    if g.in_next > min_in_max || g.out_next > min_out_max {
                        if g.in_next <= init.in_max.min(g.in_max) && g.out_next <= init.out_max.min(g.out_max) {
                            o.fail(format!("max-shrank:{}", kind.name()), format!("op {} {}: need ({}, {}) exceeds a maximum reported earlier in the history ({}, {}); a buffer allocated then is too small now", s.op, tag, g.in_next, g.out_next, min_in_max, min_out_max));
                        }
                    }
                    if g.in_next > init.in_max.min(g.in_max) {
                        o.fail(format!("in_next>in_max:{}", kind.name()), format!("op {} {}: input_frames_next {} > input_frames_max {} (at allocation time {})", s.op, tag, g.in_next, g.in_max, init.in_max));
                    }
                    if g.out_next > init.out_max.min(g.out_max) {
                        o.fail(format!("out_next>out_max:{}", kind.name()), format!("op {} {}: output_frames_next {} > output_frames_max {} (at allocation time {})", s.op, tag, g.out_next, g.out_max, init.out_max));
                    }
                }
                match &s.res {
                    StepRes::Call(Ok(_)) if !s.count_known => {
                        if let Some(m) = fm.as_mut() {
                            m.advance();
                        }
                    }
                    StepRes::Call(Ok((ni, no))) => {
                        if *ni != s.before.in_next {
                            o.fail(format!("consumed!=in_next:{}", kind.name()), format!("op {}: returned input count {} but input_frames_next was {}", s.op, ni, s.before.in_next));
                        }
                        if *no > s.before.out_next {
                            o.fail(format!("out>out_next:{}", kind.name()), format!("op {}: wrote {} frames, output_frames_next was {}", s.op, no, s.before.out_next));
                        }
                        if kind.exact_out() && *no != s.before.out_next {
                            o.fail(format!("out!=out_next:{}", kind.name()), format!("op {}: wrote {} frames, output_frames_next was {} (fixed-output / synchronous)", s.op, no, s.before.out_next));
                        }
                        if s.path == Path::Pib {
                            for (ch, w) in s.written.iter().enumerate() {
                                let want = if s.mask[ch] { *no } else { 0 };
                                if *w != want {
                                    o.fail(format!("written!=reported:{}", kind.name()), format!("op {} channel {}: highest frame written {} but reported {} (active={})", s.op, ch, w, no, s.mask[ch]));
                                }
                            }
                        } else {
                            for (ch, w) in s.written.iter().enumerate() {
                                let want = if s.mask[ch] { *no } else { 0 };
                                if *w != want {
                                    o.fail(format!("process-len:{}", kind.name()), format!("op {} channel {}: process() returned {} frames, expected {}", s.op, ch, w, want));
                                }
                            }
                        }
                        if let Some(m) = fm.as_mut() {
                            let (pi, po) = m.next();
                            if (pi, po) != (*ni, *no) {
                                o.fail(format!("fft-counts:{}", kind.name()), format!("op {}: returned ({},{}) but block arithmetic gives ({},{})", s.op, ni, no, pi, po));
                            }
                            m.advance();
                            o.count("fft_model_calls", 1);
                        }
                    }
                    StepRes::Call(Err(e)) => {
                        o.fail(format!("err:{}:{}", kind.name(), variant(e)), format!("processing call (op {}) with buffers of the advertised sizes returned Err {:?}; getters before: {:?}", s.op, e, s.before));
                    }
                    StepRes::Reset => {
                        if let Some(m) = fm.as_mut() {
                            m.reset();
                        }
                    }
                    _ => {}
                }
            }
        }
        Which::C09 => {
            let mut measured_after_change = false;
            let mut pending = false;
            for s in &tr.steps {
                if s.alloc_getters != 0 {
                    o.fail(format!("alloc:getters:{}", kind.name()), format!("op {}: the getters performed {} allocator calls", s.op, s.alloc_getters));
                }
                let is_pib_call = matches!(s.res, StepRes::Call(_)) && s.path == Path::Pib && !s.partial;
                let is_call = matches!(s.res, StepRes::Call(_));
                if is_pib_call {
                    o.count("measured_process_calls", 1);
                    if pending {
                        measured_after_change = true;
                    }
                    if s.alloc != 0 {
                        o.fail(format!("alloc:process_into_buffer:{}", kind.name()), format!("op {}: process_into_buffer performed {} allocator calls", s.op, s.alloc));
                    }
                } else if !is_call {
                    o.count("measured_setter_reset_calls", 1);
                    // rejected setters build an error value; ResampleError holds no heap data, so this must be zero too
                    if s.alloc != 0 {
                        let what = match (&s.res, s.ratio_set, s.chunk_set) {
                            (StepRes::Reset, _, _) => "reset",
                            (StepRes::Set(Err(crate::dynres::ErrKind::ShortOut { .. })), _, _) => "process_into_buffer (rejected: output too short)",
                            (_, Some(_), _) => "set_resample_ratio",
                            (_, _, Some(_)) => "set_chunk_size",
                            _ => "setter",
                        };
                        o.fail(format!("alloc:{}:{}", what, kind.name()), format!("op {}: {} performed {} allocator calls", s.op, what, s.alloc));
                    }
                }
                if is_call {
                    pending = false;
                } else {
                    pending = true;
                }
                if s.partial {
                    pending = true;
                }
            }
            o.nontrivial = measured_after_change;
        }
    }
    o
}

fn variant(e: &crate::dynres::ErrKind) -> &'static str {
    use crate::dynres::ErrKind::*;
    match e {
        RatioOutOfBounds => "RatioOutOfBounds",
        SyncNotAdjustable => "SyncNotAdjustable",
        WrongIn { .. } => "WrongNumberOfInputChannels",
        WrongOut { .. } => "WrongNumberOfOutputChannels",
        WrongMask { .. } => "WrongNumberOfMaskChannels",
        ShortIn { .. } => "InsufficientInputBufferSize",
        ShortOut { .. } => "InsufficientOutputBufferSize",
        InvalidChunk { .. } => "InvalidChunkSize",
        ChunkNotAdjustable => "ChunkSizeNotAdjustable",
    }
}

impl Property for HistProp {
    type Case = HistCase;
    fn id(&self) -> &'static str {
        match self.0 {
            Which::C03 => "C03",
            Which::C04 => "C04",
            Which::C09 => "C09",
        }
    }
    fn rule(&self) -> String {
        let common = "cases = (configuration of one of the seven types x {f32,f64}, noise signal, history of up to 40 (thorough 120) documented operations generated relative to state; ratio proposals of fixed-input kinds mapped through the benign envelope of DESIGN §6). distinct = distinct case JSON digest. ";
        match self.0 {
            Which::C03 => format!("{}non-trivial = at least 3 processing calls and at least one state-changing op (ratio / chunk / reset / partial) between two of them.", common),
            Which::C04 => format!("{}non-trivial = the history reaches a ratio within 1 % of either end of the adjustable range, or changes the chunk size, before a processing call (FFT types: at least 3 processing calls checked against the integer block model).", common),
            Which::C09 => format!("{}non-trivial = at least one allocation-measured process_into_buffer call after a state-changing op.", common),
        }
    }
    fn assumptions(&self) -> Vec<String> {
        let mut v = vec![
            "harness and rubato built with opt-level=3, debug-assertions and overflow-checks on: out-of-range get_unchecked aborts the worker (std unsafe-precondition checks), integer overflow panics".to_string(),
            "x86_64 host with AVX+FMA: NEON kernels are not reachable; the `log` feature is off".to_string(),
            "ratio changes of FastFixedIn/SincFixedIn are restricted to the benign envelope computed by the harness position model (region outside is covered by the known-finding replays)".to_string(),
        ];
        if self.0 == Which::C09 {
            v.push("allocator traffic is observed on the calling thread through a counting #[global_allocator]; rubato spawns no threads".into());
        }
        v
    }
    fn strategy(&self, tier: Tier) -> BoxedStrategy<HistCase> {
        hist_case_strategy(tier, if tier.thorough() { 4e7 } else { 6e6 }, self.0 == Which::C09)
    }
    fn cases(&self, tier: Tier) -> u32 {
        match (self.0, tier) {
            (Which::C09, Tier::Quick) => 60_000,
            (_, Tier::Quick) => 120_000,
            (Which::C09, Tier::Thorough) => 3_000_000,
            (_, Tier::Thorough) => 6_000_000,
        }
    }
    fn run(&self, c: &HistCase) -> Outcome {
        if c.cfg.f32 {
            run_t::<f32>(self.0, c)
        } else {
            run_t::<f64>(self.0, c)
        }
    }
    fn health(&self, a: &Aggregate) -> Option<String> {
        if a.evaluations > 1000 && (a.distinct.len() as u64) * 20 < a.evaluations {
            return Some(format!("only {} of {} cases were non-trivial", a.distinct.len(), a.evaluations));
        }
        for k in crate::cfg::ALL_KINDS {
            if a.evaluations > 5000 && !a.classes.contains_key(&format!("kind:{}", k.name())) {
                return Some(format!("no case of kind {}", k.name()));
            }
        }
        let _ = Kind::FastIn;
        None
    }
}
