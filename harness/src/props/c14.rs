//! C14 — output_delay() reports the true alignment delay of the output stream.
use crate::cfg::{build, chunk_strategy, rate_pair_strategy, ratio_strategy, window_of, Config, Kind, ALL_KINDS};
use crate::dynres::SampleX;
use crate::engine::{Aggregate, Outcome, Property, Tier};
use crate::signal::Signal;
use proptest::prelude::*;
use serde::{Deserialize, Serialize};

#[derive(Clone, Debug, Serialize, Deserialize)]
pub struct Case {
    pub cfg: Config,
    /// event position: first admissible position + this many input frames
    pub n_off: usize,
    /// sigma = minimum admissible sigma x this factor (1..3)
    pub sigma_mul: f64,
    /// execute the README recipe (loop, partial, flush with None, skip delay, keep len*ratio)
    pub recipe: bool,
    /// asynchronous types: change the ratio (not ramped) to original * max_rel^pos before the stream
    /// starts; output_delay() is then read at, and must be right for, the new ratio
    #[serde(default)]
    pub set_pos: Option<f64>,
    /// the instance is a reused one: before the clip it has processed two chunks of noise (asynchronous types:
    /// at the ratio original * max_rel^pos, set without ramp) and has then been reset()
    #[serde(default)]
    pub reuse: Option<f64>,
}

pub struct C14;

/// passband edge in input-Nyquist units (None: no passband to speak of)
fn passband_edge(cfg: &Config) -> Option<f64> {
    let r = cfg.nominal_ratio();
    match cfg.kind {
        Kind::FastIn | Kind::FastOut => Some(0.5 * r.min(1.0)),
        Kind::SincIn | Kind::SincOut => {
            let cc: f64 = rubato::calculate_cutoff::<f64>(cfg.filt_len(), window_of(cfg.window));
            let pe = cfg.f_cutoff as f64 * r.min(1.0) - (1.0 - cc);
            if pe > 0.02 {
                Some(pe)
            } else {
                None
            }
        }
        _ => {
            let (fi, fo) = cfg.fft_blocks();
            let cc: f64 = rubato::calculate_cutoff::<f64>(fi.min(fo).max(2), rubato::WindowFunction::BlackmanHarris2);
            let pe = (2.0 * cc - 1.0) * r.min(1.0);
            if pe > 0.02 {
                Some(pe)
            } else {
                None
            }
        }
    }
}

fn run_t<T: SampleX>(c0: &Case) -> Outcome {
    let mut o = Outcome::default();
    let (mut cfg, excl) = c0.cfg.sanitized();
    for l in excl {
        o.class(l);
    }
    cfg.channels = 1;
    let kind = cfg.kind;
    let set_ratio = match c0.set_pos {
        Some(pos) if kind.is_async() && cfg.max_rel > 1.0 => Some(crate::hist::proposal_ratio(&cfg, pos)),
        _ => None,
    };
    let reuse_ratio = match c0.reuse {
        Some(pos) if kind.is_async() && cfg.max_rel > 1.0 => Some(crate::hist::proposal_ratio(&cfg, pos)),
        _ => None,
    };
    if set_ratio.is_none() && reuse_ratio.is_none() {
        cfg.max_rel = 1.0;
    }
    o.class(format!("kind:{}", kind.name()));
    let ratio = set_ratio.unwrap_or(cfg.nominal_ratio());
    // the event must pass the filter designed for the original ratio and be resolvable at the ratio in use
    let mut pcfg = cfg.clone();
    pcfg.ratio = cfg.ratio.min(ratio);
    let pe = match passband_edge(&pcfg) {
        Some(p) => p,
        None => {
            o.class("passband-empty(constructed away)");
            return o;
        }
    };
    // the bump must lie inside the passband: two periods of the passband edge, and wide enough to be
    // sampled at either rate
    let sigma_min = 6.0f64.max(4.0 / ratio).max(4.0 / pe);
    let sigma = sigma_min * c0.sigma_mul.clamp(1.0, 3.0);
    let (fi, _fo) = if kind.is_fft() { cfg.fft_blocks() } else { (0, 0) };
    let lead = cfg.filt_len().max(fi) as f64;
    let n0 = (7.0 * sigma + lead).ceil() + c0.n_off as f64;
    let clip_len = (n0 + 7.0 * sigma).ceil() as usize;
    let sig = Signal::Bump { at: n0, sigma };
    let mut b = match build::<T>(&cfg) {
        Ok(b) => b,
        Err(e) => {
            o.fail(format!("construct-rejected:{}", kind.name()), e);
            return o;
        }
    };
    let res = &mut b.res;
    if c0.reuse.is_some() {
        if let Some(r) = reuse_ratio {
            if let Err(e) = res.set_ratio(r, false) {
                o.fail(format!("set-ratio-rejected:{}", kind.name()), format!("in-range ratio {} rejected: {}", r, e));
                return o;
            }
        }
        let noise = Signal::Noise { seed: c0.n_off as u64, amp: 1.0 };
        let mut at = 0u64;
        for _ in 0..2 {
            let need = res.in_next();
            let inp: Vec<Vec<T>> = vec![(0..need).map(|n| T::of64(noise.value(0, at + n as u64))).collect()];
            at += need as u64;
            if let Err(e) = res.proc_alloc(&inp, None) {
                o.fail(format!("err:{}", kind.name()), format!("process failed: {}", e));
                return o;
            }
        }
        res.rst();
        o.class("reused-after-reset");
    }
    if let Some(r) = set_ratio {
        if let Err(e) = res.set_ratio(r, false) {
            o.fail(format!("set-ratio-rejected:{}", kind.name()), format!("in-range ratio {} rejected: {}", r, e));
            return o;
        }
        o.class("ratio-set-before-stream");
    }
    let delay = res.delay();
    let new_len = (clip_len as f64 * ratio) as usize;
    let mut out: Vec<f64> = Vec::with_capacity(new_len + delay + 4096);
    let mut pos = 0usize;
    let mut calls = 0;
    let (mut dmin, mut dmax) = (delay, delay);
    // bulk of the clip
    loop {
        let need = res.in_next();
        if pos + need > clip_len || calls > 2_000_000 {
            break;
        }
        let inp: Vec<Vec<T>> = vec![(0..need).map(|n| T::of64(sig.value(0, (pos + n) as u64))).collect()];
        match res.proc_alloc(&inp, None) {
            Ok(v) => out.extend(v[0].iter().map(|x| x.f64v())),
            Err(e) => {
                o.fail(format!("err:{}", kind.name()), format!("process failed: {}", e));
                return o;
            }
        }
        pos += need;
        calls += 1;
        // a caller may read output_delay() at any time: every value read during the stream must describe its alignment
        let d = res.delay();
        dmin = dmin.min(d);
        dmax = dmax.max(d);
    }
    // last remaining frames
    if pos < clip_len {
        let inp: Vec<Vec<T>> = vec![(pos..clip_len).map(|n| T::of64(sig.value(0, n as u64))).collect()];
        match res.partial_alloc(Some(&inp), None) {
            Ok(v) => out.extend(v[0].iter().map(|x| x.f64v())),
            Err(e) => {
                o.fail(format!("err:{}", kind.name()), format!("process_partial failed: {}", e));
                return o;
            }
        }
    }
    // flush until new_length + delay frames exist
    let mut flushes = 0;
    while out.len() < new_len + delay && flushes < 100_000 {
        match res.partial_alloc(None, None) {
            Ok(v) => out.extend(v[0].iter().map(|x| x.f64v())),
            Err(e) => {
                o.fail(format!("err:{}", kind.name()), format!("process_partial(None) failed: {}", e));
                return o;
            }
        }
        flushes += 1;
    }
    if out.len() < new_len + delay {
        o.fail(format!("flush-insufficient:{}", kind.name()), format!("only {} frames after {} flush calls, need {}", out.len(), flushes, new_len + delay));
        return o;
    }
    let tol = ratio.max(1.0) + 1.0;
    let mass: f64 = out.iter().sum();
    let centroid: f64 = out.iter().enumerate().map(|(i, v)| i as f64 * v).sum::<f64>() / mass;
    let expect = n0 * ratio + delay as f64;
    let diff = centroid - expect;
    o.maxi(&format!("worst_abs_delay_error_over_tol:{}", kind.name()), diff.abs() / tol);
    if !(diff.abs() <= tol) {
        let dir = if diff < 0.0 { "early" } else { "late" };
        o.fail(
            format!("delay:{}:{}", kind.name(), dir),
            format!("event at input frame {} (sigma {:.1}): output centred at {:.3}, expected n*ratio + output_delay() = {:.3} + {} = {:.3}; error {:.3} output frames, allowed {:.3} (ratio {:.5}, filter length / block {})", n0, sigma, centroid, n0 * ratio, delay, expect, diff, tol, ratio, lead),
        );
        return o;
    }
    for d in [dmin, dmax] {
        let diff = centroid - (n0 * ratio + d as f64);
        if !(diff.abs() <= tol) {
            o.fail(
                format!("delay-read-in-stream:{}", kind.name()),
                format!("output_delay() read {} during the stream (before it: {}): event at input frame {} is centred at {:.3}, i.e. {:.3} output frames from n*ratio + that value, allowed {:.3}", d, delay, n0, centroid, diff, tol),
            );
            return o;
        }
    }
    if c0.recipe {
        // README: skip `delay` frames, keep new_length frames: must be the resampled clip itself
        let clip = &out[delay..delay + new_len];
        let m: f64 = clip.iter().sum();
        let cen: f64 = clip.iter().enumerate().map(|(i, v)| i as f64 * v).sum::<f64>() / m;
        // not truncated: the kept frames hold (practically) all of the event that came out of the resampler
        if !((m / mass - 1.0).abs() < 0.01) {
            o.fail(format!("recipe-truncated:{}", kind.name()), format!("trimmed clip holds {:.4} of the event's mass in the whole output", m / mass));
            return o;
        }
        if !((cen - n0 * ratio).abs() <= tol) {
            o.fail(format!("recipe-shifted:{}", kind.name()), format!("trimmed clip has the event at {:.3}, the ideally resampled clip at {:.3}", cen, n0 * ratio));
            return o;
        }
        o.class("recipe");
    }
    o.nontrivial = true;
    o
}

impl Property for C14 {
    type Case = Case;
    fn id(&self) -> &'static str {
        "C14"
    }
    fn rule(&self) -> String {
        "cases = configuration of any of the seven types (ratios / rate pairs, filter lengths, block sizes, degrees, chunk sizes), a Gaussian event wide enough to lie in the passband, at a generated position; a quarter of the instances are reused ones (two chunks of noise at another ratio, then reset()); the stream is produced exactly as the README describes (process loop, process_partial for the rest, process_partial(None) until new_length + delay frames exist); every value of output_delay() read during the stream must describe it, the centroid of the output event must be n*ratio + output_delay() within max(1,ratio)+1 output frames, and after skipping output_delay() frames and keeping len*ratio frames the clip must contain the whole event at n*ratio. non-trivial = every case with a non-empty passband. distinct = distinct case JSON digest.".into()
    }
    fn assumptions(&self) -> Vec<String> {
        vec!["configurations whose low-pass has no passband (tiny FFT blocks, short filters at strong down-sampling) are constructed away and counted".into()]
    }
    fn strategy(&self, tier: Tier) -> BoxedStrategy<Case> {
        let th = tier.thorough();
        (((0usize..7).prop_map(|i| ALL_KINDS[i]), any::<bool>(), ratio_strategy(), rate_pair_strategy(if th { 640 } else { 320 }), chunk_strategy(if th { 4096 } else { 1024 }), 1usize..=4, 0u8..5), ((2usize..=32, prop_oneof![3 => Just(0usize), 1 => 1usize..8]).prop_map(|(k, r)| 8 * k - r), 0.7f32..0.99, 16usize..=128, 0u8..4, 0u8..6, 0usize..400, 1.0f64..3.0, any::<bool>(), prop_oneof![2 => Just(None), 1 => (-1.0f64..=1.0).prop_map(Some)], 1.5f64..4.0, prop_oneof![3 => Just(None), 1 => (-1.0f64..=1.0).prop_map(Some)]))
            .prop_map(move |((kind, f32, ratio, rates, chunk, sub, degree), (sinc_len, f_cutoff, os, interp, window, n_off, sigma_mul, recipe, set_pos, max_rel, reuse))| {
                let mut cfg = Config { kind, f32, ratio, rate_in: rates.0, rate_out: rates.1, chunk, sub_chunks: sub, degree, sinc_len, f_cutoff, os, interp, window, ..Config::default() };
                if kind.is_async() {
                    // keep the stream affordable: sigma ~ 4/ratio input frames, L x points x frames
                    cfg.ratio = ratio.clamp(1.0 / 8.0, 8.0);
                    if set_pos.is_some() || reuse.is_some() {
                        cfg.max_rel = max_rel;
                        cfg.ratio = ratio.clamp(1.0 / 4.0, 4.0);
                    }
                } else {
                    // FFT blocks of at least 64 points so that the built-in low-pass has a passband
                    let g = crate::cfg::gcd(rates.0, rates.1);
                    let m = (rates.0 / g).min(rates.1 / g).max(1);
                    let per = if kind == Kind::FftOut { rates.1 / g } else { rates.0 / g };
                    let k = (64 + m - 1) / m;
                    cfg.chunk = cfg.chunk.max(k * per * if kind == Kind::FftInOut { 1 } else { sub });
                }
                Case { cfg, n_off, sigma_mul, recipe, set_pos, reuse }
            })
            .boxed()
    }
    fn cases(&self, tier: Tier) -> u32 {
        if tier.thorough() {
            1_000_000
        } else {
            60_000
        }
    }
    fn run(&self, c: &Case) -> Outcome {
        if c.cfg.f32 {
            run_t::<f32>(c)
        } else {
            run_t::<f64>(c)
        }
    }
    fn health(&self, a: &Aggregate) -> Option<String> {
        if a.evaluations > 500 && (a.distinct.len() as u64) * 2 < a.evaluations {
            return Some(format!("only {} of {} cases were non-trivial", a.distinct.len(), a.evaluations));
        }
        None
    }
}
