//! C15 — SIMD kernels equal the scalar kernel; CPU dispatch is transparent; kernels read exactly
//! the sinc_len samples starting at the given index.
use crate::cfg::{window_of, Config, Kernel, Kind};
use crate::dynres::SampleX;
use crate::engine::{Aggregate, Outcome, Property, Tier};
use crate::hist::stream_out;
use crate::signal::{hash64, Signal, Tone};
use proptest::prelude::*;
use rubato::sinc_interpolator::sinc_interpolator_avx::AvxInterpolator;
use rubato::sinc_interpolator::sinc_interpolator_sse::SseInterpolator;
use rubato::sinc_interpolator::{ScalarInterpolator, SincInterpolator};
use serde::{Deserialize, Serialize};

#[derive(Clone, Debug, Serialize, Deserialize)]
pub struct KernelCase {
    pub f32: bool,
    /// sinc length / 8 (1..=64)
    pub l8: usize,
    pub os: usize,
    pub window: u8,
    pub fc: f32,
    /// 0 uniform, 1 huge dynamic range (1e-12..1e12), 2 tiny (1e-30), 3 around the smallest normal number (subnormal samples and products)
    pub wave: u8,
    pub seed: u64,
    /// offset of the slice start inside a larger allocation (0..=7 elements)
    pub align: u8,
    /// samples after the last possible window (>= 1: the kernels require index + len < wave.len())
    pub extra: usize,
    /// (index fraction, subindex fraction) pairs; first and last positions are always added
    pub points: Vec<(u16, u16)>,
}

#[derive(Clone, Debug, Serialize, Deserialize)]
pub struct StreamCase {
    pub cfg: Config,
    pub tones: Vec<Tone>,
    pub seed: u64,
    pub out_frames: usize,
}

#[derive(Clone, Debug, Serialize, Deserialize)]
pub enum Case {
    Kernel(KernelCase),
    Stream(StreamCase),
}

pub struct C15;

/// independent re-derivation of the filter table (reference model), in f64
pub fn reference_table(l: usize, os: usize, fc: f32, w: u8) -> Vec<Vec<f64>> {
    let tot = l * os;
    let pi = std::f64::consts::PI;
    let n = tot as f64;
    let win: Vec<f64> = (0..tot)
        .map(|x| {
            let xf = x as f64;
            let base = match w % 6 {
                0 | 1 => 0.5 - 0.5 * (2.0 * pi * xf / n).cos(),
                2 | 3 => 0.42 - 0.5 * (2.0 * pi * xf / n).cos() + 0.08 * (4.0 * pi * xf / n).cos(),
                _ => 0.35875 - 0.48829 * (2.0 * pi * xf / n).cos() + 0.14128 * (4.0 * pi * xf / n).cos() - 0.01168 * (6.0 * pi * xf / n).cos(),
            };
            if w % 2 == 1 {
                base * base
            } else {
                base
            }
        })
        .collect();
    let mut y = vec![0.0; tot];
    for (x, yv) in y.iter_mut().enumerate() {
        let v = (x as f64 - (tot / 2) as f64) * fc as f64 / os as f64;
        let s = if v == 0.0 { 1.0 } else { (v * pi).sin() / (v * pi) };
        *yv = win[x] * s;
    }
    // exactly rounded sum (sorted by magnitude, compensated)
    let mut sum = 0.0f64;
    let mut comp = 0.0f64;
    for v in &y {
        let t = sum + v;
        if sum.abs() >= v.abs() {
            comp += (sum - t) + v;
        } else {
            comp += (v - t) + sum;
        }
        sum = t;
    }
    let sum = (sum + comp) / os as f64;
    let mut sincs = vec![vec![0.0; l]; os];
    for p in 0..l {
        for k in 0..os {
            sincs[os - k - 1][p] = y[os * p + k] / sum;
        }
    }
    sincs
}

fn run_kernel<T: SampleX>(c: &KernelCase) -> Outcome {
    let mut o = Outcome::default();
    let l = 8 * c.l8.clamp(1, 64);
    let os = c.os.max(1);
    o.class(if c.f32 { "sample:f32" } else { "sample:f64" });
    o.class(if (l / 8) % 2 == 1 { "L/8 odd" } else { "L/8 even" });
    o.class(format!("wave:{}", c.wave % 4));
    o.class(format!("align:{}", c.align % 8));
    let w = window_of(c.window);
    let scalar = ScalarInterpolator::<T>::new(l, os, c.fc, w);
    let avx = AvxInterpolator::<T>::new(l, os, c.fc, w);
    let sse = SseInterpolator::<T>::new(l, os, c.fc, w);
    let (avx, sse) = match (avx, sse) {
        (Ok(a), Ok(s)) => (a, s),
        _ => {
            o.fail("cpu-feature-missing", "AVX+FMA / SSE3 kernels are not constructible on this host");
            return o;
        }
    };
    let n = l + c.extra.max(1) + (c.points.len().min(64));
    let align = (c.align % 8) as usize;
    let unit = |k: u64| (hash64(c.seed ^ hash64(k)) >> 11) as f64 / (1u64 << 53) as f64;
    let mut store: Vec<T> = vec![T::of64(f64::NAN); n + align + 8];
    let mut wave64 = vec![0.0f64; n];
    for i in 0..n {
        let v = 2.0 * unit(i as u64) - 1.0;
        let v = match c.wave % 4 {
            0 => v,
            1 => v * 10f64.powf(24.0 * unit(1_000_000 + i as u64) - 12.0),
            2 => v * 1e-30,
            _ => v * (if c.f32 { f32::MIN_POSITIVE as f64 } else { f64::MIN_POSITIVE }) * 10f64.powf(6.0 * unit(2_000_000 + i as u64) - 3.0),
        };
        let t = T::of64(v);
        store[align + i] = t;
        wave64[i] = t.f64v();
    }
    let wave: &[T] = &store[align..align + n];
    let max_index = n - l - 1; // index + l < n
    let reference = if !c.f32 && l * os <= (1 << 16) { Some(reference_table(l, os, c.fc, c.window)) } else { None };
    // the scalar table itself, read out through the public kernel with unit impulses (for sum|products|)
    let mut pts: Vec<(usize, usize)> = vec![(0, 0), (max_index, os - 1), (0, os - 1), (max_index, 0)];
    for (a, b) in c.points.iter().take(64) {
        pts.push(((*a as usize * (max_index + 1)) >> 16, (*b as usize * os) >> 16));
    }
    let eps = T::EPS;
    let mut worst = 0.0f64;
    let mut worst_ref = 0.0f64;
    let mut poisoned: Vec<T> = wave.to_vec();
    for (index, sub) in pts {
        // taps of the sub-filter, from the scalar kernel on unit impulses (exact: one product each)
        let mut taps = vec![0.0f64; l];
        {
            let mut imp: Vec<T> = vec![T::of64(0.0); l + 1];
            for (p, tap) in taps.iter_mut().enumerate() {
                imp[p] = T::of64(1.0);
                *tap = scalar.get_sinc_interpolated(&imp, 0, sub).f64v();
                imp[p] = T::of64(0.0);
            }
        }
        let sum_abs: f64 = (0..l).map(|p| (wave64[index + p] * taps[p]).abs()).sum();
        let v0 = scalar.get_sinc_interpolated(wave, index, sub).f64v();
        let v1 = avx.get_sinc_interpolated(wave, index, sub).f64v();
        let v2 = sse.get_sinc_interpolated(wave, index, sub).f64v();
        // products in the subnormal range are rounded to multiples of the smallest subnormal
        let tiny = if c.f32 { f32::from_bits(1) as f64 } else { f64::from_bits(1) };
        let bound = (l as f64 / 8.0 + 4.0) * eps * sum_abs + 2.0 * l as f64 * tiny;
        for (name, v) in [("avx", v1), ("sse", v2)] {
            let d = (v - v0).abs();
            if d / bound > worst {
                worst = d / bound;
            }
            if !(d <= bound) {
                o.fail(
                    format!("kernel-differs:{}:{}", name, if c.f32 { "f32" } else { "f64" }),
                    format!("L={} os={} index={} subindex={}: {} {:e} vs scalar {:e}, |diff| {:e} > {:e} ((L/8+4) eps sum|products|)", l, os, index, sub, name, v, v0, d, bound),
                );
                return o;
            }
        }
        if let Some(r) = &reference {
            let exact: f64 = (0..l).map(|p| wave64[index + p] * r[sub][p]).sum();
            let sum_abs_r: f64 = (0..l).map(|p| (wave64[index + p] * r[sub][p]).abs()).sum();
            let b = 64.0 * f64::EPSILON * sum_abs_r + 2.0 * l as f64 * f64::from_bits(1) + f64::MIN_POSITIVE;
            let d = (v0 - exact).abs();
            if d / b > worst_ref {
                worst_ref = d / b;
            }
            if !(d <= b) {
                o.fail("scalar-differs-from-reference", format!("L={} os={} window={} fc={} index={} subindex={}: scalar {:e} vs reference {:e}, |diff| {:e} > {:e}", l, os, c.window % 6, c.fc, index, sub, v0, exact, d, b));
                return o;
            }
            o.count("reference_points", 1);
        }
        // read footprint: poison everything outside [index, index+l)
        for (i, p) in poisoned.iter_mut().enumerate() {
            *p = if i >= index && i < index + l { wave[i] } else { T::of64(f64::NAN) };
        }
        for (name, v, orig) in [
            ("scalar", scalar.get_sinc_interpolated(&poisoned, index, sub), v0),
            ("avx", avx.get_sinc_interpolated(&poisoned, index, sub), v1),
            ("sse", sse.get_sinc_interpolated(&poisoned, index, sub), v2),
        ] {
            if v.f64v().to_bits() != orig.to_bits() || !v.f64v().is_finite() {
                o.fail(format!("footprint:{}:{}", name, if c.f32 { "f32" } else { "f64" }), format!("L={} index={} subindex={}: result changes from {:e} to {:e} when everything outside [index, index+L) is NaN", l, index, sub, orig, v.f64v()));
                return o;
            }
        }
        o.count("points", 1);
    }
    o.maxi(if c.f32 { "worst_simd_over_bound:f32" } else { "worst_simd_over_bound:f64" }, worst);
    o.maxi("worst_scalar_vs_reference_over_bound", worst_ref);
    o.nontrivial = true;
    o
}

fn run_stream<T: SampleX>(c: &StreamCase) -> Outcome {
    let mut o = Outcome::default();
    let (mut cfg, excl) = c.cfg.sanitized();
    for l in excl {
        o.class(l);
    }
    cfg.channels = 1;
    cfg.max_rel = cfg.max_rel.max(1.0);
    o.class(format!("stream:{}", cfg.kind.name()));
    let sig = Signal::TonesNoise { tones: c.tones.clone(), seed: c.seed, noise: 0.05 };
    let peak: f64 = c.tones.iter().map(|t| t.a).sum::<f64>() + 0.05;
    let l = cfg.filt_len() as f64;
    let mut outs = vec![];
    for k in [Kernel::Dispatch, Kernel::Scalar, Kernel::Sse, Kernel::Avx] {
        let mut c2 = cfg.clone();
        c2.kernel = k;
        match stream_out::<T>(&c2, &sig, c.out_frames) {
            Ok(y) => outs.push((k, y)),
            Err(e) => {
                o.fail(format!("stream-error:{:?}", k), e);
                return o;
            }
        }
    }
    let tol = 64.0 * (l / 8.0 + 4.0) * T::EPS * peak;
    let base = &outs[1].1; // scalar
    for (k, y) in &outs {
        if y.len() != base.len() {
            o.fail(format!("stream-length:{:?}", k), format!("{} vs {} frames", y.len(), base.len()));
            return o;
        }
        for (i, (a, b)) in y.iter().zip(base).enumerate() {
            let d = (a.f64v() - b.f64v()).abs();
            if !(d <= tol) {
                o.fail(format!("stream-differs:{:?}", k), format!("frame {}: kernel {:?} gives {:e}, scalar {:e} (|diff| {:e} > {:e})", i, k, a.f64v(), b.f64v(), d, tol));
                return o;
            }
        }
    }
    // this host has AVX+FMA: the dispatcher must have picked the AVX kernel
    let (d, a) = (&outs[0].1, &outs[3].1);
    if d.iter().zip(a).any(|(x, y)| x.bits() != y.bits()) {
        o.fail("dispatch-not-avx", "the stream of a resampler built with new() differs from the one built on the AVX kernel on a host with AVX+FMA");
        return o;
    }
    o.count("stream_frames", base.len() as u64);
    o.nontrivial = base.len() >= 500;
    o
}

impl Property for C15 {
    type Case = Case;
    fn id(&self) -> &'static str {
        "C15"
    }
    fn rule(&self) -> String {
        "kernel cases = f32/f64, sinc_len (every multiple of 8 up to 512 forced), oversampling, window, cutoff, waveform (uniform / 24 decades of dynamic range / 1e-30 / around the smallest normal number, i.e. subnormal samples and products), slice start at offset 0..7 inside a larger allocation, 4 corner + up to 64 generated (index, subindex) points: AVX and SSE vs scalar within (L/8+4) eps sum|products|, scalar vs an independently derived f64 table within 64 eps sum|products|, and bit-identical finite results with everything outside [index, index+L) set to NaN. stream cases = a sinc resampler built with new() and with new_with_interpolator on the scalar, SSE and AVX kernels on the same input. non-trivial = every kernel case; stream cases with >= 500 frames. distinct = distinct case JSON digest.".into()
    }
    fn assumptions(&self) -> Vec<String> {
        vec![
            "x86_64 host with AVX+FMA and SSE3: the NEON kernel cannot be executed here; the dispatcher is expected to select AVX".into(),
            "the reference table re-derives the documented window and sinc formulas in f64; 64 eps covers libm differences".into(),
        ]
    }
    fn isolated(&self) -> bool {
        true
    }
    fn strategy(&self, tier: Tier) -> BoxedStrategy<Case> {
        let th = tier.thorough();
        let max_tab: usize = if th { 1 << 19 } else { 1 << 15 };
        let kernel = (any::<bool>(), 1usize..=64, prop_oneof![1 => Just(1usize), 1 => Just(2usize), 4 => 1usize..=2048], 0u8..6, 0.2f32..1.0, 0u8..4, any::<u64>(), 0u8..8, 1usize..300, proptest::collection::vec((any::<u16>(), any::<u16>()), 8..=64))
            .prop_map(move |(f32, l8, os, window, fc, wave, seed, align, extra, points)| {
                let os = os.min((max_tab / (8 * l8)).max(1));
                Case::Kernel(KernelCase { f32, l8, os, window, fc, wave, seed, align, extra, points })
            });
        let tone = (0.001f64..0.3, 0.2f64..1.0, 0.0f64..6.28).prop_map(|(f, a, ph)| Tone { f, a, ph });
        let stream = (any::<bool>(), any::<bool>(), crate::cfg::ratio_strategy(), crate::cfg::chunk_strategy(1024), 1usize..=16, 1usize..=64, 0u8..4, 0u8..6, proptest::collection::vec(tone, 1..=2), any::<u64>(), 600usize..1500, (prop_oneof![2 => Just(0usize), 1 => 1usize..8], prop_oneof![1 => Just(1.0f64), 1 => 1.0f64..16.0]))
            .prop_map(|(f32, fo, ratio, chunk, l8, os, interp, window, tones, seed, out_frames, (short, max_rel))| {
                // any integer length: new() must round it up to a multiple of 8, as the explicit kernels are built
                let cfg = Config { kind: if fo { Kind::SincOut } else { Kind::SincIn }, f32, ratio, chunk, sinc_len: 8 * l8 - short, os, interp, window, f_cutoff: 0.9, max_rel, ..Config::default() };
                let max_out = ((1u64 << 17) as f64 * ratio) as usize;
                Case::Stream(StreamCase { cfg, tones, seed, out_frames: out_frames.min(max_out.max(500)) })
            });
        prop_oneof![5 => kernel, 1 => stream].boxed()
    }
    fn cases(&self, tier: Tier) -> u32 {
        if tier.thorough() {
            400_000
        } else {
            16_000
        }
    }
    fn forced(&self, _tier: Tier) -> Vec<Case> {
        // every length class x both sample types x three oversampling factors
        let mut v = vec![];
        for l8 in 1..=64usize {
            for f32 in [false, true] {
                for (os, window) in [(1usize, 0u8), (3, 3), (16, 5)] {
                    let points = (0..48u32).map(|i| ((i * 1361 % 65536) as u16, (i * 7919 % 65536) as u16)).collect();
                    v.push(Case::Kernel(KernelCase { f32, l8, os, window, fc: 0.91, wave: (l8 % 4) as u8, seed: l8 as u64, align: (l8 % 8) as u8, extra: 1 + l8 % 5, points }));
                }
            }
        }
        v
    }
    fn run(&self, c: &Case) -> Outcome {
        match c {
            Case::Kernel(k) => {
                if k.f32 {
                    run_kernel::<f32>(k)
                } else {
                    run_kernel::<f64>(k)
                }
            }
            Case::Stream(s) => {
                if s.cfg.f32 {
                    run_stream::<f32>(s)
                } else {
                    run_stream::<f64>(s)
                }
            }
        }
    }
    fn health(&self, a: &Aggregate) -> Option<String> {
        if a.evaluations > 500 && (a.distinct.len() as u64) * 2 < a.evaluations {
            return Some(format!("only {} of {} cases were non-trivial", a.distinct.len(), a.evaluations));
        }
        None
    }
}
