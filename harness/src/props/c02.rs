//! C02 — unrepresentable content is rejected (anti-aliasing / anti-imaging stopband).
use crate::cfg::{window_of, Config, Kind, WINDOW_NAMES};
use crate::dynres::SampleX;
use crate::engine::{Aggregate, Outcome, Property, Tier};
use crate::hist::stream_out;
use crate::num::{db, ls_fit, undb, REJ_DB};
use crate::props::c01::{band_of, fft_fidelity_cfg, sinc_fidelity_cfg};
use crate::signal::{Signal, Tone};
use proptest::prelude::*;
use serde::{Deserialize, Serialize};

#[derive(Clone, Debug, Serialize, Deserialize)]
pub enum Case {
    /// tone in the stopband: position in [edge + guard, input Nyquist]
    Stop { cfg: Config, pos: f64, ph: f64 },
    /// tone at f_cutoff (ratio >= 1): -6 dB point
    SixDb { cfg: Config, ph: f64 },
    /// calculate_cutoff over all lengths 32..=2048 x 6 windows
    Table,
    /// frequency response of the filter table itself, read out tap by tap through the public scalar
    /// kernel and evaluated by direct DTFT: stopband (up to the oversampled Nyquist, i.e. all image
    /// bands), passband flatness and the -6 dB point, independent of any stream
    Proto { f32: bool, l8: usize, os: usize, window: u8, fc: f32, seed: u64 },
    /// impulse response of the whole stream at the rational ratio k/q: q unit impulses whose positions cover all
    /// residues mod q give the effective filter at a spacing of 1/k input samples; its DTFT is the exact response
    /// of the resampler as built by the public constructor (filter length, cutoff scaling, window, normalisation)
    Impulse { cfg: Config, k: usize, q: usize, seed: u64 },
}

pub struct C02;

const M_OUT: usize = 6000;

fn fold(g: f64) -> f64 {
    let f = g.rem_euclid(1.0);
    if f > 0.5 {
        1.0 - f
    } else {
        f
    }
}

fn run_stop<T: SampleX>(cfg0: &Config, pos: f64, ph: f64) -> Outcome {
    let pi = std::f64::consts::PI;
    let mut o = Outcome::default();
    let (mut cfg, excl) = cfg0.sanitized();
    for l in excl {
        o.class(l);
    }
    cfg.channels = 1;
    cfg.max_rel = cfg.max_rel.max(1.0);
    let kind = cfg.kind;
    let is_fft = kind.is_fft();
    let ratio = cfg.nominal_ratio();
    let band = band_of(&cfg);
    o.class(format!("kind:{}", kind.name()));
    o.class(if cfg.f32 { "sample:f32" } else { "sample:f64" });
    o.class(if ratio < 1.0 { "down-sampling" } else { "up-sampling" });
    let w = band.window;
    // stopband edge in input-Nyquist units; FFT: the lower Nyquist
    let edge = if is_fft { ratio.min(1.0) } else { band.edge };
    // the fitted edge is accurate (DESIGN §8: the exact table response meets the stated figure from the edge itself with
    // 2.9 dB to spare); a small guard band only keeps the tone off the edge itself
    let guard = 0.10 * band.delta;
    // known finding D17: when the pass band itself, f_cutoff * min(1, ratio), is narrower than about half a transition
    // half-width the response is that of the bare window and the stated rejection is not reached (measured on the exact
    // table response: short by 0.0 dB at 0.5, by up to 17 dB at 0.05; met with >= 1.2 dB to spare from 0.55 on).
    // Such configurations are excluded by construction and counted; the literal replays of D17 run them.
    if !is_fft && !cfg0.allow_known && band.edge - band.delta < 0.55 * band.delta {
        o.class("excluded:D17(pass band narrower than 0.55 transition half-widths)");
        return o;
    }
    if edge + guard >= 0.999 {
        o.class("stopband-empty(constructed away)");
        return o;
    }
    let nu_nyq = edge + guard + pos.clamp(0.0, 1.0) * (0.999 - edge - guard);
    let nu = nu_nyq / 2.0;
    if !is_fft {
        o.class(format!("window:{}", WINDOW_NAMES[w]));
        // interpolation term negligible (it is C01's clause): 2 b <= 0.1 at this frequency
        let wv = 2.0 * pi * nu;
        let min_os = match cfg.interp % 4 {
            0 => (wv / (0.05f64 * 128.0 / 3.0).powf(0.25)).ceil(),
            1 => (wv / (0.05f64 / 0.06415).powf(1.0 / 3.0)).ceil(),
            2 => (wv / (0.4f64).sqrt()).ceil(),
            _ => (wv / 0.1).ceil(),
        } as usize;
        if cfg.os < min_os {
            cfg.os = min_os;
            o.class("oversampling-raised(interpolation term is C01's)");
        }
    }
    let l = band.filt as f64;
    let m0 = if is_fft { 3 * cfg.fft_blocks().1 + 10 } else { (2.0 * l * ratio.max(1.0)) as usize + 10 };
    let sig = Signal::Tones { tones: vec![Tone { f: nu, a: 1.0, ph }] };
    let y = match stream_out::<T>(&cfg, &sig, m0 + M_OUT) {
        Ok(y) => y,
        Err(e) => {
            o.fail(format!("stream-error:{}", kind.name()), e);
            return o;
        }
    };
    let seg: Vec<f64> = y[m0..m0 + M_OUT].iter().map(|v| v.f64v()).collect();
    // predicted lines: the tone and its images (2k +- nu) / ratio, folded into the output band
    let mut lines: Vec<f64> = vec![];
    let kmax = (ratio.ceil() as i64 + 1).min(40);
    for k in 0..=kmax {
        for s in [1.0, -1.0] {
            let fin = 2.0 * k as f64 + s * nu_nyq;
            if fin <= 0.0 {
                continue;
            }
            // every image is sampled at the output rate, i.e. folded into the output band (for ratio 1 and a tone next to
            // the Nyquist frequency the first image lands on the tone's own line with the same attenuation)
            let g = fin / 2.0 / ratio;
            lines.push(fold(g));
        }
    }
    lines.sort_by(|a, b| a.partial_cmp(b).unwrap());
    let sep = 8.0 / M_OUT as f64;
    let mut merged: Vec<(f64, usize)> = vec![];
    for g in lines {
        if let Some(last) = merged.last_mut() {
            if (g - last.0).abs() < sep {
                last.1 += 1;
                continue;
            }
        }
        merged.push((g, 1));
    }
    // lines too close to DC or to the output Nyquist cannot be fitted as sinusoids; they stay in the remainder
    let n_all: usize = merged.iter().map(|m| m.1).sum();
    let merged: Vec<(f64, usize)> = merged.into_iter().filter(|(g, _)| *g > sep / 2.0 && *g < 0.5 - sep / 2.0).collect();
    // lines left out of the fit stay in the remainder, which is then allowed their coherent sum
    let n_unfitted = n_all - merged.iter().map(|m| m.1).sum::<usize>();
    let gs: Vec<f64> = merged.iter().map(|m| m.0).collect();
    let fit = ls_fit(&seg, m0, &gs);
    let rej_db = if is_fft { 100.0 } else { REJ_DB[w] - 3.0 };
    let mut rej = undb(-rej_db);
    if cfg.f32 {
        rej = rej.max(64.0 * f32::EPSILON as f64);
    }
    let tag = if is_fft { "fft".to_string() } else { WINDOW_NAMES[w].to_string() };
    let mut worst = f64::MIN;
    for (j, (g, cnt)) in merged.iter().enumerate() {
        let a = fit.amp(j);
        let allowed = rej * *cnt as f64;
        worst = worst.max(db(a / allowed));
        if !(a <= allowed) {
            o.fail(
                format!("line:{}:{}:{}", kind.name(), tag, if ratio < 1.0 { "down" } else { "up" }),
                format!("input tone at {:.5} x input Nyquist (stopband edge {:.5}, {:.2} transition half-widths inside): output line at {:.5} cycles/frame has amplitude {:.1} dB, allowed {:.1} dB; ratio {:.5}, L {}, os {}, interp {}, fc {}", nu_nyq, edge, (nu_nyq - edge) / band.delta, g, db(a), db(allowed), ratio, band.filt, cfg.os, cfg.interp % 4, cfg.f_cutoff),
            );
            return o;
        }
    }
    let rest = fit.resid_rms * 2f64.sqrt();
    let rej_rest = rej * (n_unfitted.max(1) as f64);
    worst = worst.max(db(rest / rej_rest));
    o.maxi(&format!("worst_margin_db:{}(neg=ok)", tag), worst);
    if !(rest <= rej_rest) {
        o.fail(
            format!("remainder:{}:{}:{}", kind.name(), tag, if ratio < 1.0 { "down" } else { "up" }),
            format!("input tone at {:.5} x input Nyquist (stopband edge {:.5}): after removing the {} predicted lines the output still holds {:.1} dB, allowed {:.1} dB; ratio {:.5}, L {}, os {}, interp {}, fc {}", nu_nyq, edge, merged.len(), db(rest), db(rej_rest), ratio, band.filt, cfg.os, cfg.interp % 4, cfg.f_cutoff),
        );
        return o;
    }
    o.count("lines_measured", merged.len() as u64);
    o.nontrivial = true;
    o
}

fn run_sixdb<T: SampleX>(cfg0: &Config, ph: f64) -> Outcome {
    let mut o = Outcome::default();
    let mut cfg = cfg0.clone();
    cfg.channels = 1;
    cfg.max_rel = cfg.max_rel.max(1.0);
    cfg.os = 512;
    cfg.interp = 0;
    let ratio = cfg.ratio;
    let l = cfg.filt_len() as f64;
    o.class("six-db-point");
    let nu = cfg.f_cutoff as f64 / 2.0;
    let sig = Signal::Tones { tones: vec![Tone { f: nu, a: 1.0, ph }] };
    let m0 = (2.0 * l * ratio) as usize + 10;
    let y = match stream_out::<T>(&cfg, &sig, m0 + 3000) {
        Ok(y) => y,
        Err(e) => {
            o.fail("stream-error:sixdb", e);
            return o;
        }
    };
    let seg: Vec<f64> = y[m0..m0 + 3000].iter().map(|v| v.f64v()).collect();
    let g = fold(nu / ratio);
    if g < 0.002 || g > 0.498 {
        o.class("sixdb-line-unresolvable");
        return o;
    }
    let fit = ls_fit(&seg, m0, &[g]);
    let gain = db(fit.amp(0));
    o.maxi("worst_sixdb_deviation", (gain + 6.0206).abs());
    if !((gain + 6.0206).abs() <= 0.1) {
        o.fail("six-db-point", format!("tone at f_cutoff = {} (ratio {:.4}, L {}, window {}) comes out at {:.3} dB instead of -6.02 dB", cfg.f_cutoff, ratio, cfg.filt_len(), WINDOW_NAMES[(cfg.window % 6) as usize], gain));
        return o;
    }
    o.nontrivial = true;
    o
}

fn run_proto(f32_: bool, l8: usize, os: usize, window: u8, fc: f32, seed: u64) -> Outcome {
    use rubato::sinc_interpolator::{ScalarInterpolator, SincInterpolator};
    let mut o = Outcome::default();
    let l = 8 * l8.clamp(8, 64);
    // os >= 2: with a single sinc per sample the stopband tail and its mirror image add up at the Nyquist
    // frequency of the table, which is a property of the sampling of the table, not of the filter
    let os = os.clamp(2, 8);
    let w = (window % 6) as usize;
    o.class("prototype-response");
    o.class(format!("window:{}", WINDOW_NAMES[w]));
    // read the table out: tap p of sub-filter s is the response to a unit impulse at p
    let mut h = vec![0.0f64; l * os];
    if f32_ {
        let k = ScalarInterpolator::<f32>::new(l, os, fc, window_of(window));
        let mut imp = vec![0.0f32; l + 1];
        for p in 0..l {
            imp[p] = 1.0;
            for s in 0..os {
                h[os * p + (os - 1 - s)] = k.get_sinc_interpolated(&imp, 0, s) as f64;
            }
            imp[p] = 0.0;
        }
    } else {
        let k = ScalarInterpolator::<f64>::new(l, os, fc, window_of(window));
        let mut imp = vec![0.0f64; l + 1];
        for p in 0..l {
            imp[p] = 1.0;
            for s in 0..os {
                h[os * p + (os - 1 - s)] = k.get_sinc_interpolated(&imp, 0, s);
            }
            imp[p] = 0.0;
        }
    }
    let cc: f64 = rubato::calculate_cutoff::<f64>(l, window_of(window));
    let delta = 1.0 - cc;
    let fcd = fc as f64;
    let (pe, edge) = (fcd - delta, fcd + delta);
    let pi = std::f64::consts::PI;
    let n = h.len();
    // |H(nu)| / os, nu in input-Nyquist units; the table runs at os times the input rate
    let resp = |nu: f64| -> f64 {
        let (mut re, mut im) = (0.0, 0.0);
        let w0 = pi * nu / os as f64;
        for (k, v) in h.iter().enumerate() {
            let ph = w0 * (k as f64 - (n / 2) as f64);
            re += v * ph.cos();
            im -= v * ph.sin();
        }
        (re * re + im * im).sqrt() / os as f64
    };
    let unit = |k: u64| (crate::signal::hash64(seed ^ crate::signal::hash64(k)) >> 11) as f64 / (1u64 << 53) as f64;
    let dc = resp(0.0);
    let single = if f32_ { 64.0 * f32::EPSILON as f64 } else { 0.0 };
    if (dc - 1.0).abs() > 1e-9 + single {
        o.fail("prototype-dc-gain", format!("DC gain of the table is {} (L {}, os {}, window {}, cutoff {})", dc, l, os, WINDOW_NAMES[w], fc));
        return o;
    }
    // stopband: a fixed grid over [edge, os] plus random points, concentrated just above the edge
    // exact response of the table: no measurement tolerance is needed; the stated figure itself is used (calibrated:
    // it holds from the fitted edge on with at least 2.9 dB to spare for every length and window)
    let rej = undb(-REJ_DB[w]).max(single);
    let top = os as f64;
    let mut worst = f64::MIN;
    // no guard band here: on the exact response of the table the fitted edge is accurate (the stated figures hold
    // from the edge itself with 2.9 dB to spare over all lengths and windows; 5.9 dB with the 3 dB tolerance), and a
    // guard band would hide an error of the edge of up to its own width
    if edge < top {
        let mut pts: Vec<f64> = (0..300).map(|i| edge + (top - edge) * (i as f64 / 299.0)).collect();
        for i in 0..300u64 {
            pts.push(edge + (3.0 * delta).min(top - edge) * unit(i));
        }
        for nu in pts {
            let a = resp(nu);
            worst = worst.max(db(a / rej));
            if !(a <= rej) {
                o.fail(format!("prototype-stopband:{}", WINDOW_NAMES[w]), format!("table response at {:.5} x input Nyquist (stopband edge {:.5}) is {:.1} dB, allowed {:.1} dB; L {}, os {}, cutoff {}", nu, edge, db(a), db(rej), l, os, fc));
                return o;
            }
        }
        o.maxi(&format!("worst_prototype_stopband_margin_db:{}(neg=ok)", WINDOW_NAMES[w]), worst);
    }
    // passband flatness and the -6 dB point
    let tolw = if w <= 1 { 0.01 } else { 0.001 };
    if pe > 0.0 {
        for i in 0..100u64 {
            let nu = pe * unit(1000 + i);
            let a = resp(nu);
            if !((a - 1.0).abs() <= tolw + single) {
                o.fail(format!("prototype-passband:{}", WINDOW_NAMES[w]), format!("table response at {:.5} x input Nyquist (passband edge {:.5}) is {:.6}, allowed 1 +- {}; L {}, os {}, cutoff {}", nu, pe, a, tolw, l, os, fc));
                return o;
            }
        }
    }
    // (not where the transition band overlaps its own mirror image at the oversampled Nyquist)
    if pe > 0.0 && fcd + 2.0 * delta <= top {
        let a = db(resp(fcd));
        if !((a + 6.0206).abs() <= 0.1) {
            o.fail("prototype-six-db", format!("table response at the cutoff {} is {:.3} dB instead of -6.02 dB (L {}, os {}, window {})", fc, a, l, os, WINDOW_NAMES[w]));
            return o;
        }
    }
    o.nontrivial = edge < top;
    o
}

fn run_impulse<T: SampleX>(cfg0: &Config, k: usize, q: usize, seed: u64) -> Outcome {
    let mut o = Outcome::default();
    let (mut cfg, excl) = cfg0.sanitized();
    for l in excl {
        o.class(l);
    }
    let k = k.clamp(2, 4);
    let mut q = q.clamp(1, 16);
    while crate::cfg::gcd(k, q) != 1 {
        q += 1;
    }
    cfg.channels = 1;
    cfg.max_rel = cfg.max_rel.max(1.0);
    cfg.ratio = k as f64 / q as f64;
    // the k phases of the response fall on table entries: the interpolation between entries is C01's clause
    cfg.os = (k * (cfg.os / k).max(1)).min(2048 / k * k);
    let kind = cfg.kind;
    let ratio = cfg.ratio;
    let band = band_of(&cfg);
    let w = band.window;
    o.class("stream-impulse-response");
    o.class(format!("kind:{}", kind.name()));
    o.class(format!("window:{}", WINDOW_NAMES[w]));
    o.class(if ratio < 1.0 { "down-sampling" } else { "up-sampling" });
    if cfg.sinc_len % 8 != 0 {
        o.class("sinc_len not a multiple of 8");
    }
    let (delta, edge) = (band.delta, band.edge);
    let fce = edge - delta;
    if !cfg0.allow_known && fce < 0.55 * delta {
        o.class("excluded:D17(pass band narrower than 0.55 transition half-widths)");
        return o;
    }
    let l = band.filt;
    let mut sp = 2 * l + 16;
    while sp % q != 1 % q {
        sp += 1;
    }
    let a0 = 2 * l + 8;
    let at: Vec<u64> = (0..q).map(|j| (a0 + j * sp) as u64).collect();
    let n_in = a0 + q * sp + 2 * l;
    let n_out = (n_in as f64 * ratio) as usize;
    let sig = Signal::Impulses { at: at.clone() };
    let y = match stream_out::<T>(&cfg, &sig, n_out) {
        Ok(y) => y,
        Err(e) => {
            o.fail(format!("stream-error:{}", kind.name()), e);
            return o;
        }
    };
    // sample i (in units of 1/k input frames, relative to the impulse) of the effective filter
    let half = ((l / 2 + 8) * k) as i64;
    let mut g = vec![f64::NAN; (2 * half + 1) as usize];
    let mut outside = 0.0f64;
    for (n, v) in y.iter().enumerate().take(n_out) {
        let tau = n as f64 / ratio;
        let j = (((tau - a0 as f64) / sp as f64).round().max(0.0) as usize).min(q - 1);
        let i = (n * q) as i64 - (at[j] as i64) * k as i64;
        if i.abs() <= half {
            g[(i + half) as usize] = v.f64v();
        } else {
            outside = outside.max(v.f64v().abs());
        }
    }
    if g.iter().any(|v| v.is_nan()) {
        o.fail("impulse-assembly", format!("the q = {} impulse responses do not cover all phases (harness)", q));
        return o;
    }
    let single = if cfg.f32 { 64.0 * f32::EPSILON as f64 } else { 0.0 };
    if outside > 1e-12 + single {
        o.fail(format!("impulse-support:{}", kind.name()), format!("response of {} to a unit impulse is {} more than sinc_len/2 + 8 = {} input frames away from it; ratio {}/{}, sinc_len {}", kind.name(), outside, l / 2 + 8, k, q, cfg.sinc_len));
        return o;
    }
    let pi = std::f64::consts::PI;
    let resp = |nu: f64| -> f64 {
        let (mut re, mut im) = (0.0, 0.0);
        let w0 = pi * nu / k as f64;
        for (i, v) in g.iter().enumerate() {
            if *v != 0.0 {
                let ph = w0 * (i as f64 - half as f64);
                re += v * ph.cos();
                im -= v * ph.sin();
            }
        }
        (re * re + im * im).sqrt() / k as f64
    };
    let unit = |i: u64| (crate::signal::hash64(seed ^ crate::signal::hash64(i)) >> 11) as f64 / (1u64 << 53) as f64;
    let dc = resp(0.0);
    let rej = undb(-REJ_DB[w]).max(single);
    // the k phases alias the far stopband (around 2k x input Nyquist) onto DC: at most the rejection figure
    if (dc - 1.0).abs() > 1e-9 + rej {
        o.fail(format!("impulse-dc-gain:{}", kind.name()), format!("DC gain of the impulse response is {}; ratio {}/{}, sinc_len {}, window {}, cutoff {}", dc, k, q, cfg.sinc_len, WINDOW_NAMES[w], cfg.f_cutoff));
        return o;
    }
    let top = k as f64;
    let mut worst = f64::MIN;
    if edge < top {
        let mut pts: Vec<f64> = (0..300).map(|i| edge + (top - edge) * (i as f64 / 299.0)).collect();
        for i in 0..300u64 {
            pts.push(edge + (3.0 * delta).min(top - edge) * unit(i));
        }
        for nu in pts {
            let a = resp(nu);
            worst = worst.max(db(a / rej));
            if !(a <= rej) {
                o.fail(
                    format!("impulse-stopband:{}:{}:{}", kind.name(), WINDOW_NAMES[w], if ratio < 1.0 { "down" } else { "up" }),
                    format!("response of the stream at {:.5} x input Nyquist (stopband edge {:.5}, {:.2} transition half-widths inside) is {:.1} dB, allowed {:.1} dB; ratio {}/{}, sinc_len {}, os {}, interp {}, cutoff {}", nu, edge, (nu - edge) / delta, db(a), db(rej), k, q, cfg.sinc_len, cfg.os, cfg.interp % 4, cfg.f_cutoff),
                );
                return o;
            }
        }
        o.maxi(&format!("worst_stream_impulse_stopband_margin_db:{}(neg=ok)", WINDOW_NAMES[w]), worst);
    }
    if band.pe > 0.0 && fce + 2.0 * delta <= top {
        let a = db(resp(fce));
        o.maxi("worst_stream_impulse_sixdb_deviation", (a + 6.0206).abs());
        if !((a + 6.0206).abs() <= 0.1) {
            o.fail(format!("impulse-six-db:{}", kind.name()), format!("response of the stream at the cutoff {:.5} x input Nyquist is {:.3} dB instead of -6.02 dB; ratio {}/{}, sinc_len {}, window {}, cutoff {}", fce, a, k, q, cfg.sinc_len, WINDOW_NAMES[w], cfg.f_cutoff));
            return o;
        }
    }
    o.nontrivial = edge < top;
    o
}

fn run_table() -> Outcome {
    let mut o = Outcome::default();
    o.class("calculate_cutoff-table");
    let mut n = 0u64;
    for w in 0..6u8 {
        let mut prev64 = 0.0f64;
        let mut prev32 = 0.0f32;
        for len in 32..=2048usize {
            let c64: f64 = rubato::calculate_cutoff::<f64>(len, window_of(w));
            let c32: f32 = rubato::calculate_cutoff::<f32>(len, window_of(w));
            n += 1;
            if !(c64 > 0.0 && c64 < 1.0 && c32 > 0.0 && c32 < 1.0) {
                o.fail("cutoff-range", format!("calculate_cutoff({}, {}) = {} / {} is not inside (0,1)", len, WINDOW_NAMES[w as usize], c64, c32));
                return o;
            }
            if !(c64 > prev64) || !(c32 >= prev32) {
                o.fail("cutoff-not-increasing", format!("calculate_cutoff({}, {}) = {} does not exceed the value {} for length {}", len, WINDOW_NAMES[w as usize], c64, prev64, len - 1));
                return o;
            }
            if (c64 - c32 as f64).abs() > 4.0 * f32::EPSILON as f64 {
                o.fail("cutoff-f32-f64", format!("calculate_cutoff({}, {}): f32 {} vs f64 {}", len, WINDOW_NAMES[w as usize], c32, c64));
                return o;
            }
            prev64 = c64;
            prev32 = c32;
        }
    }
    o.count("cutoff_values_checked", n);
    o.nontrivial = true;
    o
}

impl Property for C02 {
    type Case = Case;
    fn id(&self) -> &'static str {
        "C02"
    }
    fn rule(&self) -> String {
        "cases = sinc or FFT configuration as in C01 and one unit tone between the stopband edge (plus a guard band of 0.10 transition half-widths; half of the tones concentrated just above it) and the input Nyquist, down- and up-sampling; the output lines of the tone and of its images are predicted, fitted by least squares (lines closer than 8/M merged with a coherent-sum allowance) and each must be below the stated rejection figure - 3 dB measurement tolerance, as must the remainder (FFT: 100 dB). Plus: the -6.02 +- 0.1 dB point at f_cutoff for ratio >= 1 (generated), and calculate_cutoff on all 12 102 (length 32..=2048, window) pairs: inside (0,1), strictly increasing, f32 == f64 (forced, exhaustive); and the frequency response of the filter table itself (read out tap by tap through the public scalar kernel, evaluated by DTFT on 600 stopband points up to the oversampled Nyquist (the stated figure itself, no tolerance and no guard band: calibrated margin 2.9 dB), 100 passband points and at the cutoff); and the impulse response of the whole stream at rational ratios k/q (k = 2..4, q = 1..16 coprime; q unit impulses covering all residues mod q give the effective filter of the resampler as built by the public constructor at a spacing of 1/k input frames), evaluated by DTFT against the stated figure itself from the stated edge on (600 points up to k x input Nyquist), its DC gain and its -6.02 dB point. Configurations whose pass band f_cutoff*min(1,ratio) is narrower than 0.55 transition half-widths are excluded and counted (known finding D17). non-trivial = every case with a non-empty stopband. distinct = distinct case JSON digest.".into()
    }
    fn assumptions(&self) -> Vec<String> {
        vec![
            "3 dB stated measurement tolerance (edge-of-band minimum, Lebesgue constant of the polynomial blend, finite window)".into(),
            "oversampling is raised where needed so that the interpolation term (C01's clause) is negligible; counted".into(),
            "f32: rejection figure at least 64 eps_f32".into(),
        ]
    }
    fn strategy(&self, _tier: Tier) -> BoxedStrategy<Case> {
        // half of the tones are concentrated just above the stopband edge (pos^4), where an error of the edge shows
        let pos = prop_oneof![1 => 0.0f64..=1.0, 1 => (0.0f64..=1.0).prop_map(|u| u * u * u * u)];
        let stop_sinc = (sinc_fidelity_cfg(), pos, 0.0f64..6.283, prop_oneof![1 => Just(-1.0f32), 1 => Just(-2.0f32), 1 => 0.3f32..1.0]).prop_map(|(mut cfg, pos, ph, fc)| {
            // f_cutoff <= calculate_cutoff so that the stopband is not empty: {cc, min(0.95, cc), U[0.3, cc]}
            let cc: f32 = rubato::calculate_cutoff::<f32>(cfg.filt_len(), window_of(cfg.window));
            cfg.f_cutoff = if fc == -1.0 { cc } else if fc == -2.0 { cc.min(0.95) } else { 0.3 + (fc - 0.3) / 0.7 * (cc - 0.3) };
            Case::Stop { cfg, pos, ph }
        });
        let stop_fft = (fft_fidelity_cfg(4096), 0.0f64..=1.0, 0.0f64..6.283).prop_map(|(mut cfg, pos, ph)| {
            // stopband tones exist only when down-sampling
            if cfg.rate_out >= cfg.rate_in {
                std::mem::swap(&mut cfg.rate_in, &mut cfg.rate_out);
                if cfg.rate_in == cfg.rate_out {
                    cfg.rate_in = 48000;
                    cfg.rate_out = 44100;
                }
                // recompute a valid chunk for the swapped pair
                let g = crate::cfg::gcd(cfg.rate_in, cfg.rate_out);
                let (mi, mo) = (cfg.rate_in / g, cfg.rate_out / g);
                let per = if cfg.kind == Kind::FftOut { mo } else { mi };
                let k = ((64 + mo - 1) / mo).max(1).max((cfg.chunk / per.max(1) / cfg.sub_chunks.max(1)).min(4096 / mi.max(1)).max(1));
                cfg.chunk = k * per * if cfg.kind == Kind::FftInOut { 1 } else { cfg.sub_chunks };
            }
            Case::Stop { cfg, pos, ph }
        });
        let six = (sinc_fidelity_cfg(), 0.0f64..6.283, 1.0f64..8.0, any::<bool>()).prop_map(|(mut cfg, ph, ratio, at_cc)| {
            cfg.ratio = ratio;
            let cc: f32 = rubato::calculate_cutoff::<f32>(cfg.filt_len(), window_of(cfg.window));
            cfg.f_cutoff = if at_cc { cc } else { cfg.f_cutoff.min(0.97).max(0.4) };
            Case::SixDb { cfg, ph }
        });
        let proto = (any::<bool>(), 8usize..=64, prop_oneof![1 => Just(2usize), 1 => Just(3usize), 3 => 2usize..=8], 0u8..6, prop_oneof![1 => Just(-1.0f32), 1 => Just(0.95f32), 2 => 0.2f32..1.0], any::<u64>()).prop_map(|(f32, l8, os, window, fc, seed)| {
            let cc: f32 = rubato::calculate_cutoff::<f32>(8 * l8, window_of(window));
            Case::Proto { f32, l8, os, window, fc: if fc < 0.0 { cc } else { fc }, seed }
        });
        let impulse = (sinc_fidelity_cfg(), 2usize..=4, prop_oneof![2 => Just(1usize), 3 => 1usize..=7, 1 => 1usize..=16], any::<u64>(), prop_oneof![1 => Just(-1.0f32), 1 => Just(-2.0f32), 1 => 0.3f32..1.0]).prop_map(|(mut cfg, k, q, seed, fc)| {
            let cc: f32 = rubato::calculate_cutoff::<f32>(cfg.filt_len(), window_of(cfg.window));
            cfg.f_cutoff = if fc == -1.0 { cc } else if fc == -2.0 { cc.min(0.95) } else { 0.3 + (fc - 0.3) / 0.7 * (cc - 0.3) };
            cfg.chunk = cfg.chunk.min(512);
            Case::Impulse { cfg, k, q, seed }
        });
        prop_oneof![6 => stop_sinc, 2 => stop_fft, 1 => six, 2 => proto, 3 => impulse].boxed()
    }
    fn cases(&self, tier: Tier) -> u32 {
        if tier.thorough() {
            120_000
        } else {
            8_000
        }
    }
    fn forced(&self, _tier: Tier) -> Vec<Case> {
        vec![Case::Table]
    }
    fn run(&self, c: &Case) -> Outcome {
        match c {
            Case::Stop { cfg, pos, ph } => {
                if cfg.f32 {
                    run_stop::<f32>(cfg, *pos, *ph)
                } else {
                    run_stop::<f64>(cfg, *pos, *ph)
                }
            }
            Case::SixDb { cfg, ph } => {
                if cfg.f32 {
                    run_sixdb::<f32>(cfg, *ph)
                } else {
                    run_sixdb::<f64>(cfg, *ph)
                }
            }
            Case::Table => run_table(),
            Case::Impulse { cfg, k, q, seed } => {
                if cfg.f32 {
                    run_impulse::<f32>(cfg, *k, *q, *seed)
                } else {
                    run_impulse::<f64>(cfg, *k, *q, *seed)
                }
            }
            Case::Proto { f32, l8, os, window, fc, seed } => run_proto(*f32, *l8, *os, *window, *fc, *seed),
        }
    }
    fn health(&self, a: &Aggregate) -> Option<String> {
        if a.evaluations > 300 && (a.distinct.len() as u64) * 2 < a.evaluations {
            return Some(format!("only {} of {} cases were non-trivial", a.distinct.len(), a.evaluations));
        }
        None
    }
}
