//! C01 — band-limited signals are reproduced faithfully at the new rate (passband).
use crate::cfg::{chunk_strategy, gcd, rate_pair_strategy, ratio_strategy, window_of, Config, Kernel, Kind};
use crate::dynres::SampleX;
use crate::engine::{Aggregate, Outcome, Property, Tier};
use crate::hist::stream_out_sched;
use crate::num::{db, interp_bound, ls_fit, undb, D_FAR, LEAK_DB, REJ_DB};
use crate::signal::{Signal, Tone};
use proptest::prelude::*;
use serde::{Deserialize, Serialize};

#[derive(Clone, Debug, Serialize, Deserialize)]
pub struct ToneSpec {
    /// position in the passband (0..1); `top` maps it into the top 10 %
    pub frac: f64,
    pub top: bool,
    pub a: f64,
    pub ph: f64,
}

#[derive(Clone, Debug, Serialize, Deserialize)]
pub struct Case {
    pub cfg: Config,
    pub tones: Vec<ToneSpec>,
    /// true only in known-finding replays: apply the statement's far-stopband figure in the near zone too
    #[serde(default)]
    pub literal: bool,
    /// sinc types: cyclic mid-stream set_chunk_size schedule ("every way of chunking the stream")
    #[serde(default)]
    pub schedule: Vec<(u8, u16)>,
}

pub struct C01;

pub struct Band {
    /// passband edge, stopband edge, transition half-width (input-Nyquist units)
    pub pe: f64,
    pub edge: f64,
    pub delta: f64,
    pub window: usize,
    pub filt: usize,
}

pub fn band_of(cfg: &Config) -> Band {
    let r = cfg.nominal_ratio();
    if cfg.kind.is_sinc() {
        let l = cfg.filt_len();
        let cc: f64 = rubato::calculate_cutoff::<f64>(l, window_of(cfg.window));
        let delta = 1.0 - cc;
        let fc = cfg.f_cutoff as f64 * r.min(1.0);
        Band { pe: fc - delta, edge: fc + delta, delta, window: (cfg.window % 6) as usize, filt: l }
    } else {
        let (fi, fo) = cfg.fft_blocks();
        let lf = fi.min(fo).max(2);
        let cc: f64 = rubato::calculate_cutoff::<f64>(lf, rubato::WindowFunction::BlackmanHarris2);
        let delta = 1.0 - cc;
        let s = r.min(1.0);
        Band { pe: (cc - delta) * s, edge: (cc + delta) * s, delta: delta * s, window: 5, filt: fi.max(fo) }
    }
}

fn run_t<T: SampleX>(c0: &Case) -> Outcome {
    let pi = std::f64::consts::PI;
    let mut o = Outcome::default();
    let (mut cfg, excl) = c0.cfg.sanitized();
    for l in excl {
        o.class(l);
    }
    cfg.channels = 1;
    cfg.max_rel = cfg.max_rel.max(1.0);
    let kind = cfg.kind;
    let is_fft = kind.is_fft();
    let ratio = cfg.nominal_ratio();
    let band = band_of(&cfg);
    o.class(format!("kind:{}", kind.name()));
    o.class(if cfg.f32 { "sample:f32" } else { "sample:f64" });
    if !is_fft {
        o.class(format!("window:{}", crate::cfg::WINDOW_NAMES[band.window]));
        o.class(format!("interp:{}", cfg.interp % 4));
        o.class(match cfg.os {
            1 => "os=1",
            2 => "os=2",
            3 => "os=3",
            2047 => "os=2047",
            2048 => "os=2048",
            _ => "os:other",
        });
    }
    if band.pe <= 0.01 {
        o.class("passband-empty(constructed away)");
        return o;
    }
    // tones
    let m_out = 4000usize;
    let min_sep = 16.0 / m_out as f64;
    let mut tones: Vec<Tone> = vec![];
    for t in &c0.tones {
        let f = if t.top { 0.9 + 0.1 * t.frac.clamp(0.0, 1.0) } else { 0.02 + 0.98 * t.frac.clamp(0.0, 1.0) };
        let nu = f * band.pe / 2.0;
        let g = nu / ratio;
        if g < min_sep || tones.iter().any(|o: &Tone| ((o.f - nu) / ratio).abs() < min_sep) {
            continue;
        }
        tones.push(Tone { f: nu, a: t.a, ph: t.ph });
    }
    if tones.is_empty() {
        o.class("no-separable-tone");
        return o;
    }
    let k = tones.len();
    let l = band.filt as f64;
    let m0 = if is_fft { 3 * cfg.fft_blocks().1 + 10 } else { (2.0 * l * ratio.max(1.0)) as usize + 10 };
    let sig = Signal::Tones { tones: tones.clone() };
    if !c0.schedule.is_empty() && kind.is_sinc() {
        o.class("mid-stream-chunk-size-changes");
    }
    let y = match stream_out_sched::<T>(&cfg, &sig, m0 + m_out, &c0.schedule) {
        Ok(y) => y,
        Err(e) => {
            o.fail(format!("stream-error:{}", kind.name()), e);
            return o;
        }
    };
    if y.len() < m0 + m_out {
        o.fail(format!("stream-short:{}", kind.name()), format!("only {} output frames", y.len()));
        return o;
    }
    let seg: Vec<f64> = y[m0..m0 + m_out].iter().map(|v| v.f64v()).collect();
    let g: Vec<f64> = tones.iter().map(|t| t.f / ratio).collect();
    let fit = ls_fit(&seg, m0, &g);
    // zone: distance of the first image of the highest tone beyond the stopband edge
    let numax = tones.iter().map(|t| t.f).fold(0.0, f64::max) * 2.0;
    let d = ((2.0 - numax) - band.edge) / band.delta;
    let w = band.window;
    let far = d >= D_FAR[w] || is_fft;
    let leak_fig = if is_fft { 150.0 } else { LEAK_DB[w] };
    let leak = if far || c0.literal { undb(-leak_fig) } else { undb(-(REJ_DB[w].min(LEAK_DB[w]) - 3.0)) };
    o.class(if far { "zone:far" } else { "zone:near" });
    // known finding D16: with a Hann window the 1 % figure is exceeded (up to 1.12 % observed) when the passband is
    // narrower than the transition half-width (short filter at strong down-sampling); there the bound is 1.5 %
    let narrow = !is_fft && w == 0 && band.pe < band.delta;
    if narrow {
        o.class("zone:narrow-passband(Hann)");
    }
    let tolw = if !is_fft && w <= 1 { if narrow && !c0.literal { 0.015 } else { 0.01 } } else { 0.001 };
    let asum: f64 = tones.iter().map(|t| t.a).sum();
    let sig_eq = tones.iter().map(|t| t.a * t.a).sum::<f64>().sqrt();
    let b = |nu: f64| if is_fft { 0.0 } else { interp_bound(cfg.interp, cfg.os, 2.0 * pi * nu) };
    let feps = if cfg.f32 { 64.0 * f32::EPSILON as f64 } else { 0.0 };
    let mut worst_gain = 0.0f64;
    for (j, t) in tones.iter().enumerate() {
        let a = fit.amp(j);
        let ge = (a / t.a - 1.0).abs();
        // relative tolerance of the window plus the absolute floor (leakage of the whole signal, or the
        // interpolation error of all tones, whichever is larger) expressed relative to this tone
        let interp_all: f64 = tones.iter().map(|u| u.a * b(u.f)).sum();
        let bound = tolw + (leak * asum).max(2.0 * interp_all) / t.a + feps * asum / t.a;
        worst_gain = worst_gain.max(ge / bound);
        if std::env::var("RV_DUMP").is_ok() && ge > 0.5 * tolw {
            eprintln!("GAIN w={} L={} ratio={:.5} fc={:.4} pe={:.4} delta={:.4} pe/delta={:.3} pos={:.3} ge={:.5} tolw={}", w, band.filt, ratio, cfg.f_cutoff, band.pe, band.delta, band.pe / band.delta, 2.0 * t.f / band.pe, ge, tolw);
        }
        if !(ge <= bound) {
            o.fail(
                format!("gain:{}:{}", kind.name(), if is_fft { "fft".to_string() } else { crate::cfg::WINDOW_NAMES[w].to_string() }),
                format!("tone {} at {:.5} x input Nyquist ({:.1} % of the passband): amplitude {:.6} -> {:.6}, relative error {:.3e} > {:.3e}; ratio {:.5}, L {}, os {}, interp {}, fc {}", j, 2.0 * t.f, 200.0 * t.f / band.pe, t.a, a, ge, bound, ratio, band.filt, cfg.os, cfg.interp % 4, cfg.f_cutoff),
            );
            return o;
        }
    }
    o.maxi("worst_gain_err_over_bound", worst_gain);
    // spurious content
    let interp_sum: f64 = tones.iter().map(|t| t.a * b(t.f)).sum();
    let floor = (leak * sig_eq).max(2.0 * interp_sum).max(feps * sig_eq);
    let resid_eq = fit.resid_rms * 2f64.sqrt();
    o.maxi(if far { "worst_spurious_margin_db_far(neg=ok)" } else { "worst_spurious_margin_db_near(neg=ok)" }, db(resid_eq / floor));
    if !(resid_eq <= floor) {
        o.fail(
            format!("spurious:{}:{}:{}", kind.name(), if is_fft { "fft".to_string() } else { crate::cfg::WINDOW_NAMES[w].to_string() }, if far { "far" } else { "near" }),
            format!("spurious content {:.1} dB rel. signal exceeds the floor {:.1} dB (leak figure {:.1} dB, interpolation term {:.1} dB); zone distance d = {:.2}; ratio {:.5}, L {}, os {}, interp {}, fc {}, tones at {:?} x Nyquist", db(resid_eq / sig_eq), db(floor / sig_eq), db(leak), db(2.0 * interp_sum / sig_eq), d, ratio, band.filt, cfg.os, cfg.interp % 4, cfg.f_cutoff, tones.iter().map(|t| 2.0 * t.f).collect::<Vec<_>>()),
        );
        return o;
    }
    // one common delay: search a single tau (input frames)
    let jl = (0..k).min_by(|a, b| tones[*a].f.partial_cmp(&tones[*b].f).unwrap()).unwrap();
    let jh = (0..k).max_by(|a, b| tones[*a].f.partial_cmp(&tones[*b].f).unwrap()).unwrap();
    let resid_of = |tau: f64| -> f64 {
        let mut ss = 0.0;
        for (i, v) in seg.iter().enumerate() {
            let m = (m0 + i) as f64;
            let mut f = 0.0;
            for t in &tones {
                f += t.a * (2.0 * pi * (t.f * (m / ratio - tau)).fract() + t.ph).cos();
            }
            ss += (v - f) * (v - f);
        }
        (ss / seg.len() as f64).sqrt() * 2f64.sqrt()
    };
    let tau_of = |j: usize| (tones[j].ph - fit.phase(j)) / (2.0 * pi * tones[j].f);
    // candidates: the delays compatible with the fitted phase of the tone whose phase pins the delay down best
    // (largest amplitude x frequency): tau_k + n x period_k inside the plausible range. Scanned on every 4th
    // frame, the best three re-evaluated on all frames.
    let tmax = band.filt as f64 + 16.0;
    let js = (0..k).max_by(|a, b| (tones[*a].a * tones[*a].f).partial_cmp(&(tones[*b].a * tones[*b].f)).unwrap()).unwrap();
    let resid_sub = |tau: f64| -> f64 {
        let mut ss = 0.0;
        let mut i = 0;
        while i < seg.len() {
            let m = (m0 + i) as f64;
            let mut f = 0.0;
            for t in &tones {
                f += t.a * (2.0 * pi * (t.f * (m / ratio - tau)).fract() + t.ph).cos();
            }
            ss += (seg[i] - f) * (seg[i] - f);
            i += 4;
        }
        ss
    };
    let mut scan: Vec<(f64, f64)> = vec![];
    {
        let per = 1.0 / tones[js].f;
        let t0 = tau_of(js);
        let nmin = ((-16.0 - t0) / per).floor() as i64;
        let nmax = ((tmax - t0) / per).ceil() as i64;
        for n in nmin..=nmax {
            let t = t0 + n as f64 * per;
            scan.push((resid_sub(t), t));
        }
    }
    scan.sort_by(|a, b| a.0.partial_cmp(&b.0).unwrap());
    let mut best = (f64::MAX, 0.0);
    for (_, t) in scan.iter().take(3) {
        let rsd = resid_of(*t);
        if rsd < best.0 {
            best = (rsd, *t);
        }
    }
    // local refinement (the residual is smooth around its minimum): ternary search within a quarter period of the highest tone
    {
        let w = 0.25 / tones[jh].f;
        let (mut lo, mut hi) = (best.1 - w, best.1 + w);
        for _ in 0..16 {
            let (m1, m2) = (lo + (hi - lo) / 3.0, hi - (hi - lo) / 3.0);
            if resid_of(m1) < resid_of(m2) {
                hi = m2;
            } else {
                lo = m1;
            }
        }
        let t = 0.5 * (lo + hi);
        let rsd = resid_of(t);
        if rsd < best.0 {
            best = (rsd, t);
        }
    }
    let _ = jl;
    let cd_bound = asum * tolw + floor + 2.0 * interp_sum + feps * asum;
    o.maxi("worst_common_delay_resid_over_bound", best.0 / cd_bound);
    if !(best.0 <= cd_bound) {
        o.fail(
            format!("common-delay:{}", kind.name()),
            format!("no single delay explains the output: best tau {:.4} input frames leaves a residual of {:.3e} (allowed {:.3e}); per-tone delays {:?}", best.1, best.0, cd_bound, (0..k).map(|j| tau_of(j)).collect::<Vec<_>>()),
        );
        return o;
    }
    o.count("tones", k as u64);
    let high = tones.iter().any(|t| t.f > 0.25 * band.pe);
    o.nontrivial = high;
    if tones.iter().any(|t| t.f > 0.45 * band.pe) {
        o.class("tone-in-top-10%");
    }
    o
}

pub fn sinc_fidelity_cfg() -> BoxedStrategy<Config> {
    (
        any::<bool>(),
        any::<bool>(),
        ratio_strategy(),
        chunk_strategy(2048),
        // any integer length (the constructor rounds it up to a multiple of 8), half of them already multiples of 8
        (8usize..=64, prop_oneof![4 => Just(0usize), 1 => 1usize..8]).prop_map(|(k, r)| 8 * k - r),
        0u8..6,
        0u8..4,
        prop_oneof![1 => Just(0usize), 1 => Just(2048usize), 1 => Just(3usize), 1 => Just(2047usize), 1 => Just(2usize), 8 => (0.0f64..1.0).prop_map(|u| (2048.99f64.powf(u)).floor() as usize)],
        prop_oneof![1 => Just(-1.0f32), 1 => Just(0.95f32), 1 => 0.5f32..1.0],
        0u8..5,
        // the adjustable range must not influence the filter: half of the instances are built with room for ratio changes
        prop_oneof![2 => Just(1.0f64), 1 => 1.0f64..2.0, 1 => 2.0f64..16.0],
    )
        .prop_map(|(f32, fo, ratio, chunk, sinc_len, window, interp, os, fc, kern, max_rel)| {
            let cc: f32 = rubato::calculate_cutoff::<f32>(8 * ((sinc_len + 7) / 8), window_of(window));
            let f_cutoff = if fc < 0.0 { cc } else { fc };
            // minimum oversampling: 1 for linear / nearest, 2 for quadratic / cubic
            let os = os.max(if interp >= 2 { 1 } else { 2 });
            let kernel = match kern {
                0 => Kernel::Scalar,
                1 => Kernel::Sse,
                _ => Kernel::Dispatch,
            };
            Config { kind: if fo { Kind::SincOut } else { Kind::SincIn }, f32, ratio, chunk, sinc_len, window, interp, os, f_cutoff, kernel, max_rel, ..Config::default() }
        })
        .boxed()
}

pub fn fft_fidelity_cfg(max_block: usize) -> BoxedStrategy<Config> {
    (any::<bool>(), 0u8..3, rate_pair_strategy(max_block.min(640)), 32usize..4096, 1usize..=4, prop_oneof![1 => Just(0usize), 1 => 1usize..4096])
        .prop_map(move |(f32, variant, rates, chunk, sub, jitter)| {
            let kind = [Kind::FftIn, Kind::FftOut, Kind::FftInOut][variant as usize];
            // ratio within [1/16, 16]; blocks of at least 64 and at most max_block points
            let (mut a, mut b) = rates;
            if (b as f64 / a as f64) > 16.0 || (a as f64 / b as f64) > 16.0 {
                a = 44100;
                b = 48000;
            }
            let g = gcd(a, b);
            let (mi, mo) = (a / g, b / g);
            let per_min = if kind == Kind::FftOut { mo } else { mi };
            let small = mi.min(mo).max(1);
            let kmin = (64 + small - 1) / small;
            let kmax = (max_block / mi.max(mo)).max(kmin);
            let want = (chunk / if kind == Kind::FftInOut { 1 } else { sub }).max(1);
            let k = ((want + per_min - 1) / per_min).clamp(kmin, kmax);
            let mut chunk = k * per_min * if kind == Kind::FftInOut { 1 } else { sub };
            // half of the FixedIn / FixedOut cases: a chunk that is not a whole number of blocks (same block size), so
            // that frames are parked between calls and the number of blocks per call varies
            if kind != Kind::FftInOut {
                chunk += jitter % (per_min * sub);
            }
            Config { kind, f32, rate_in: a, rate_out: b, chunk, sub_chunks: sub, ..Config::default() }
        })
        .boxed()
}

impl Property for C01 {
    type Case = Case;
    fn id(&self) -> &'static str {
        "C01"
    }
    fn rule(&self) -> String {
        "cases = sinc (SincFixedIn/Out: ratio in [1/16,16], six windows, sinc_len 64..512, four interpolation types, oversampling 1|2..2048 with 1, 2, 3, 2047, 2048 forced, f_cutoff from {calculate_cutoff, 0.95, U[0.5,1)}, scalar / SSE / dispatched kernel) or FFT (FixedIn/Out/InOut, rate pairs, blocks 64..4096) configuration, own chunk size, f32/f64, and 1-4 tones below the passband edge (half of them in its top 10 %), random amplitudes and phases. After the transient, 4000 output frames are fitted by least squares at the known output frequencies: per-tone gain, RMS of everything else, and the residual against the input delayed by one fitted delay are bounded as the statement says (far-stopband figure in the far zone, the C02 rejection figure in the near zone). non-trivial = non-empty passband and a tone above 50 % of the passband edge. distinct = distinct case JSON digest.".into()
    }
    fn assumptions(&self) -> Vec<String> {
        vec![
            "near zone (first image of a tone within D_FAR[w] transition half-widths of the stopband edge): the far-stopband figure is replaced by the C02 rejection figure - 3 dB (known finding D11)".into(),
            "f32: floors are at least 64 eps_f32".into(),
            "cross-chunk equality is C05's job; here every case draws its own chunk size and variant".into(),
        ]
    }
    fn strategy(&self, _tier: Tier) -> BoxedStrategy<Case> {
        let tone = (0.0f64..=1.0, any::<bool>(), 0.05f64..1.0, 0.0f64..6.283).prop_map(|(frac, top, a, ph)| ToneSpec { frac, top, a, ph });
        let cfg = prop_oneof![3 => sinc_fidelity_cfg(), 1 => fft_fidelity_cfg(4096)];
        let sched = prop_oneof![3 => Just(vec![]), 1 => proptest::collection::vec((prop_oneof![1 => Just(0u8), 3 => 1u8..4], any::<u16>()), 1..5)];
        (cfg, proptest::collection::vec(tone, 1..=4), sched).prop_map(|(cfg, tones, schedule)| Case { cfg, tones, literal: std::env::var("RV_LITERAL").is_ok(), schedule }).boxed()
    }
    fn cases(&self, tier: Tier) -> u32 {
        if tier.thorough() {
            60_000
        } else {
            2_400
        }
    }
    fn forced(&self, _tier: Tier) -> Vec<Case> {
        // length classes (L/8 odd / even, minimum, maximum) x extreme oversampling factors
        let mut v = vec![];
        for (i, sinc_len) in [64usize, 72, 512, 504, 256].iter().enumerate() {
            for (j, os) in [1usize, 2, 3, 2047, 2048].iter().enumerate() {
                let interp = if *os == 1 { 2 + ((i + j) % 2) as u8 } else { ((i + j) % 4) as u8 };
                let window = ((i * 5 + j) % 6) as u8;
                let cc: f32 = rubato::calculate_cutoff::<f32>(*sinc_len, window_of(window));
                let cfg = Config { kind: if (i + j) % 2 == 0 { Kind::SincIn } else { Kind::SincOut }, f32: (i + j) % 3 == 0, ratio: [0.37, 1.0884, 2.9, 0.9187, 11.3][j], chunk: 256 + 37 * i, sinc_len: *sinc_len, window, interp, os: *os, f_cutoff: cc, ..Config::default() };
                v.push(Case { cfg, tones: vec![ToneSpec { frac: 0.5, top: true, a: 0.8, ph: 0.3 }, ToneSpec { frac: 0.31, top: false, a: 0.4, ph: 2.0 }], literal: false, schedule: vec![] });
            }
        }
        v
    }
    fn run(&self, c: &Case) -> Outcome {
        if c.cfg.f32 {
            run_t::<f32>(c)
        } else {
            run_t::<f64>(c)
        }
    }
    fn health(&self, a: &Aggregate) -> Option<String> {
        if a.evaluations > 300 && (a.distinct.len() as u64) * 2 < a.evaluations {
            return Some(format!("only {} of {} cases were non-trivial", a.distinct.len(), a.evaluations));
        }
        if a.evaluations > 1000 {
            for z in ["zone:far", "zone:near"] {
                if !a.classes.contains_key(z) {
                    return Some(format!("no case in {}", z));
                }
            }
        }
        None
    }
}
