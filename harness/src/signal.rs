//! Deterministic input signals: a pure function of (signal, channel, absolute frame index).
use serde::{Deserialize, Serialize};

#[derive(Clone, Debug, Serialize, Deserialize, PartialEq)]
pub struct Tone {
    /// cycles per input sample (0 .. 0.5)
    pub f: f64,
    pub a: f64,
    pub ph: f64,
}

#[derive(Clone, Debug, Serialize, Deserialize, PartialEq)]
pub enum Signal {
    Zeros,
    /// x[n] = n
    Index,
    /// white-ish noise in [-amp, amp], independent per channel
    Noise { seed: u64, amp: f64 },
    Tones { tones: Vec<Tone> },
    /// tones plus low-level noise (per channel: phases rotated by the channel number)
    TonesNoise { tones: Vec<Tone>, seed: u64, noise: f64 },
    /// p(n / scale), coefficients in increasing power
    Poly { coefs: Vec<f64>, scale: f64 },
    Bump { at: f64, sigma: f64 },
    /// q((n - centre) / scale), coefficients in increasing power
    LocalPoly { coefs: Vec<f64>, centre: f64, scale: f64 },
    /// unit impulses at the given (sorted) frame indices
    Impulses { at: Vec<u64> },
}

#[inline]
pub fn hash64(mut x: u64) -> u64 {
    x = x.wrapping_add(0x9E3779B97F4A7C15);
    x = (x ^ (x >> 30)).wrapping_mul(0xBF58476D1CE4E5B9);
    x = (x ^ (x >> 27)).wrapping_mul(0x94D049BB133111EB);
    x ^ (x >> 31)
}
#[inline]
pub fn unit(seed: u64, ch: usize, n: u64) -> f64 {
    let h = hash64(seed ^ hash64(n.wrapping_mul(0x2545F4914F6CDD1D) ^ ((ch as u64) << 56)));
    (h >> 11) as f64 / (1u64 << 53) as f64
}

impl Signal {
    pub fn value(&self, ch: usize, n: u64) -> f64 {
        let two_pi = 2.0 * std::f64::consts::PI;
        match self {
            Signal::Zeros => 0.0,
            Signal::Index => n as f64,
            Signal::Noise { seed, amp } => amp * (2.0 * unit(*seed, ch, n) - 1.0),
            Signal::Tones { tones } => tones.iter().map(|t| t.a * (two_pi * t.f * n as f64 + t.ph + ch as f64).cos()).sum(),
            Signal::TonesNoise { tones, seed, noise } => {
                tones.iter().map(|t| t.a * (two_pi * t.f * n as f64 + t.ph + ch as f64).cos()).sum::<f64>() + noise * (2.0 * unit(*seed, ch, n) - 1.0)
            }
            Signal::Poly { coefs, scale } => {
                let u = n as f64 / scale;
                let mut s = 0.0;
                for c in coefs.iter().rev() {
                    s = s * u + c;
                }
                s
            }
            Signal::Bump { at, sigma } => (-0.5 * ((n as f64 - at) / sigma).powi(2)).exp(),
            Signal::LocalPoly { coefs, centre, scale } => {
                let v = (n as f64 - centre) / scale;
                let mut s = 0.0;
                for c in coefs.iter().rev() {
                    s = s * v + c;
                }
                s
            }
            Signal::Impulses { at } => {
                if at.binary_search(&n).is_ok() {
                    1.0
                } else {
                    0.0
                }
            }
        }
    }
    /// value rounded to f32 (so that f32 and f64 instances see identical samples)
    pub fn value32(&self, ch: usize, n: u64) -> f64 {
        self.value(ch, n) as f32 as f64
    }
}
