//! Position model of the fixed-input asynchronous resamplers (DESIGN §2, §6), written from the
//! documented recurrence, in f64 with the same operation order. Used for envelope membership
//! (which pending ratio changes are benign) and to predict the produced frame count, which is
//! validated against the implementation in every run. Never used as a semantic oracle.
use crate::cfg::{Config, Kind};

#[derive(Clone, Debug)]
pub struct FiModel {
    pub l: isize,
    pub hist: isize,
    /// lowest window start relative to floor(idx)
    pub low_off: isize,
    /// highest window start relative to floor(idx)
    pub high_start: isize,
    /// window width in frames
    pub width: isize,
    /// true: index+width < len required (sinc kernels assert strictly); false: <= len
    pub strict_end: bool,
    pub last_index: f64,
    pub orig: f64,
    pub ratio: f64,
    pub target: f64,
    pub chunk: usize,
    pub max_chunk: usize,
}

#[derive(Clone, Debug)]
pub struct Pred {
    pub n: usize,
    pub min_idx: f64,
    pub max_idx: f64,
    pub t_min: f64,
    pub advertised: usize,
    pub next_last_index: f64,
    pub borderline: bool,
    /// |inc|, and the frame count the increment was sized for
    pub inc: f64,
    pub approx_frames: f64,
}

impl FiModel {
    pub fn new(c: &Config) -> Option<FiModel> {
        let l = c.filt_len() as isize;
        match c.kind {
            Kind::FastIn => {
                let (low_off, high_start, width) = match c.degree % 5 {
                    0 => (3, -3, 8),
                    1 => (2, -2, 6),
                    2 => (1, -1, 4),
                    3 => (0, 0, 2),
                    _ => (0, 0, 1),
                };
                Some(FiModel { l: 8, hist: 16, low_off, high_start, width, strict_end: false, last_index: -4.0, orig: c.ratio, ratio: c.ratio, target: c.ratio, chunk: c.chunk, max_chunk: c.chunk })
            }
            Kind::SincIn => {
                let (low_off, high_start) = match c.interp % 4 {
                    0 => (1, 1),
                    _ => (0, 1),
                };
                Some(FiModel { l, hist: 2 * l, low_off, high_start, width: l, strict_end: true, last_index: -((l / 2) as f64), orig: c.ratio, ratio: c.ratio, target: c.ratio, chunk: c.chunk, max_chunk: c.chunk })
            }
            _ => None,
        }
    }

    pub fn set_ratio(&mut self, new: f64, ramp: bool) {
        if !ramp {
            self.ratio = new;
        }
        self.target = new;
    }
    pub fn set_chunk(&mut self, c: usize) {
        self.chunk = c;
    }
    pub fn reset(&mut self) {
        self.last_index = -((self.l / 2) as f64);
        self.ratio = self.orig;
        self.target = self.orig;
        self.chunk = self.max_chunk;
    }

    pub fn predict(&self) -> Pred {
        let mut t = 1.0 / self.ratio;
        let t_end = 1.0 / self.target;
        let approx = self.chunk as f64 * (0.5 * self.ratio + 0.5 * self.target);
        let inc = (t_end - t) / approx;
        let end_idx = (self.chunk as isize - (self.l + 1) - t_end.ceil() as isize) as f64;
        let advertised = (self.chunk as f64 * (0.5 * self.ratio + 0.5 * self.target) + 10.0) as usize;
        let mut idx = self.last_index;
        let mut n = 0usize;
        let mut mn = f64::MAX;
        let mut mx = f64::MIN;
        let mut tmin = f64::MAX;
        let mut borderline = (idx - end_idx).abs() < 1e-6;
        while idx < end_idx {
            t += inc;
            idx += t;
            n += 1;
            mn = mn.min(idx);
            mx = mx.max(idx);
            tmin = tmin.min(t);
            if (idx - end_idx).abs() < 1e-6 {
                borderline = true;
            }
            // a non-positive step or more frames than advertised is already outside the envelope
            if t <= 0.0 || n > advertised + 1 {
                break;
            }
        }
        Pred { n, min_idx: mn, max_idx: mx, t_min: tmin, advertised, next_last_index: idx - self.chunk as f64, borderline, inc: inc.abs(), approx_frames: approx }
    }

    /// benign: the predicted trajectory of the next call stays inside the buffers, inside the
    /// advertised output size, moves forward, and is not borderline.
    pub fn benign(&self) -> bool {
        // The model repeats the documented recurrence with the same f64 operations in the same
        // order, so its trajectory is bit-identical to the implementation's; no borderline band.
        let p = self.predict();
        if p.n == 0 {
            return true;
        }
        let buflen = self.max_chunk as isize + self.hist;
        let lo_start = (p.min_idx - 1e-6).floor() as isize - self.low_off + self.hist;
        let hi_start = (p.max_idx + 1e-6).floor() as isize + self.high_start + self.hist;
        let end_ok = if self.strict_end { hi_start + self.width < buflen } else { hi_start + self.width <= buflen };
        // every window must also lie inside the frames held for the current chunk (after a
        // chunk-size reduction the buffer is longer than the valid data)
        let valid_ok = hi_start + self.width <= self.hist + self.chunk as isize;
        p.t_min > 0.0 && lo_start >= 0 && end_ok && valid_ok && p.n <= p.advertised
    }

    pub fn after_process(&mut self, p: &Pred) {
        self.last_index = p.next_last_index;
        self.ratio = self.target;
    }
}

/// Integer reference model of the FFT block adapters (C04, C07): predicts the exact
/// (in, out) sequence from the block sizes alone.
#[derive(Clone, Debug)]
pub struct FftModel {
    pub kind: Kind,
    pub fft_in: usize,
    pub fft_out: usize,
    pub chunk: usize,
    pub saved: usize,
}
impl FftModel {
    pub fn new(c: &Config) -> Option<FftModel> {
        if !c.kind.is_fft() {
            return None;
        }
        let (fi, fo) = c.fft_blocks();
        Some(FftModel { kind: c.kind, fft_in: fi, fft_out: fo, chunk: c.chunk, saved: 0 })
    }
    pub fn reset(&mut self) {
        self.saved = 0;
    }
    /// (input frames consumed, output frames produced) by the next call
    pub fn next(&self) -> (usize, usize) {
        match self.kind {
            Kind::FftInOut => (self.fft_in, self.fft_out),
            Kind::FftIn => {
                let blocks = (self.saved + self.chunk) / self.fft_in;
                (self.chunk, blocks * self.fft_out)
            }
            Kind::FftOut => {
                let missing = self.chunk.saturating_sub(self.saved);
                let blocks = (missing + self.fft_out - 1) / self.fft_out;
                (blocks * self.fft_in, self.chunk)
            }
            _ => unreachable!(),
        }
    }
    pub fn advance(&mut self) {
        match self.kind {
            Kind::FftInOut => {}
            Kind::FftIn => {
                let blocks = (self.saved + self.chunk) / self.fft_in;
                self.saved = self.saved + self.chunk - blocks * self.fft_in;
            }
            Kind::FftOut => {
                let missing = self.chunk.saturating_sub(self.saved);
                let blocks = (missing + self.fft_out - 1) / self.fft_out;
                self.saved = self.saved + blocks * self.fft_out - self.chunk;
            }
            _ => unreachable!(),
        }
    }
    pub fn in_max(&self) -> usize {
        match self.kind {
            Kind::FftOut => ((self.chunk + self.fft_out - 1) / self.fft_out) * self.fft_in,
            Kind::FftIn => self.chunk,
            _ => self.fft_in,
        }
    }
    pub fn out_max(&self) -> usize {
        match self.kind {
            Kind::FftIn => ((self.fft_in - 1 + self.chunk) / self.fft_in) * self.fft_out,
            Kind::FftOut => self.chunk,
            _ => self.fft_out,
        }
    }
}
