//! Counting global allocator: every alloc / dealloc / realloc / alloc_zeroed on the calling
//! thread bumps a thread-local counter (C09).
use std::alloc::{GlobalAlloc, Layout, System};
use std::cell::Cell;

thread_local! { static COUNT: Cell<u64> = const { Cell::new(0) }; }

pub struct Counting;
unsafe impl GlobalAlloc for Counting {
    unsafe fn alloc(&self, l: Layout) -> *mut u8 {
        let _ = COUNT.try_with(|c| c.set(c.get() + 1));
        System.alloc(l)
    }
    unsafe fn dealloc(&self, p: *mut u8, l: Layout) {
        let _ = COUNT.try_with(|c| c.set(c.get() + 1));
        System.dealloc(p, l)
    }
    unsafe fn realloc(&self, p: *mut u8, l: Layout, n: usize) -> *mut u8 {
        let _ = COUNT.try_with(|c| c.set(c.get() + 1));
        System.realloc(p, l, n)
    }
    unsafe fn alloc_zeroed(&self, l: Layout) -> *mut u8 {
        let _ = COUNT.try_with(|c| c.set(c.get() + 1));
        System.alloc_zeroed(l)
    }
}
#[inline]
pub fn get() -> u64 {
    COUNT.with(|c| c.get())
}
