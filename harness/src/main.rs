//! rv — property-based verification harness for rubato (see /verif/DESIGN.md).
#![allow(dead_code, unused_parens)]
use rv::{alloc, engine, props};

use engine::{Property, Tier};
use std::path::Path;

#[global_allocator]
static A: alloc::Counting = alloc::Counting;

fn with_prop(id: &str, f: &mut dyn FnMut(&dyn Runner)) -> bool {
    use props::hist_props::{HistProp, Which};
    match id {
        "C01" => f(&props::c01::C01),
        "C02" => f(&props::c02::C02),
        "C03" => f(&HistProp(Which::C03)),
        "C04" => f(&HistProp(Which::C04)),
        "C05" => f(&props::c05::C05),
        "C06" => f(&props::c06::C06),
        "C07" => f(&props::c07::C07),
        "C08" => f(&props::c08::C08),
        "C09" => f(&HistProp(Which::C09)),
        "C10" => f(&props::c10::C10),
        "C11" => f(&props::c11::C11),
        "C12" => f(&props::c12::C12),
        "C13" => f(&props::c13::C13),
        "C14" => f(&props::c14::C14),
        "C15" => f(&props::c15::C15),
        "C16" => f(&props::c16::C16),
        "C17" => f(&props::c17::C17),
        "C18" => f(&props::c18::C18),
        _ => return false,
    }
    true
}

/// type-erased view of a Property for the command line
trait Runner {
    fn check(&self, tier: Tier, seed: u64) -> i32;
    fn replay(&self, file: &Path) -> i32;
    fn worker(&self);
    fn gen(&self, n: usize, seed: u64, tier: Tier);
}
impl<P: Property> Runner for P {
    fn check(&self, tier: Tier, seed: u64) -> i32 {
        engine::check(self, tier, seed)
    }
    fn replay(&self, file: &Path) -> i32 {
        engine::replay(self, file)
    }
    fn worker(&self) {
        engine::worker_main(self)
    }
    fn gen(&self, n: usize, seed: u64, tier: Tier) {
        engine::gen(self, n, seed, tier)
    }
}

fn usage() -> ! {
    eprintln!("usage: rv check <ID> quick|thorough | rv replay <ID> <file> | rv worker <ID> | rv gen <ID> <n> [seed]");
    std::process::exit(2)
}

fn main() {
    let args: Vec<String> = std::env::args().collect();
    if args.len() < 3 {
        usage();
    }
    let seed: u64 = std::env::var("VERIF_SEED").ok().and_then(|s| s.parse::<i64>().ok()).map(|v| v as u64).unwrap_or(0);
    let mut code = 0;
    let id = args[2].clone();
    let ok = match args[1].as_str() {
        "check" => {
            let tier = match args.get(3).map(|s| s.as_str()) {
                Some("thorough") => Tier::Thorough,
                _ => Tier::Quick,
            };
            with_prop(&id, &mut |p| code = p.check(tier, seed))
        }
        "replay" => {
            let file = args.get(3).cloned().unwrap_or_else(|| usage());
            with_prop(&id, &mut |p| code = p.replay(Path::new(&file)))
        }
        "worker" => with_prop(&id, &mut |p| p.worker()),
        "gen" => {
            let n: usize = args.get(3).and_then(|s| s.parse().ok()).unwrap_or(5);
            let s: u64 = args.get(4).and_then(|s| s.parse().ok()).unwrap_or(seed);
            with_prop(&id, &mut |p| p.gen(n, s, Tier::Quick))
        }
        "lone" => {
            rv::props::c18::lone_main();
            true
        }
        "sched" => {
            rv::props::c18::sched_main();
            true
        }
        "fuzzcase" => {
            // rv fuzzcase <hist|kernel> <file>: decode a fuzzer input into the JSON case it stands for
            let file = args.get(3).cloned().unwrap_or_else(|| usage());
            let data = std::fs::read(&file).expect("read input");
            match id.as_str() {
                "hist" => match rv::fuzz::hist_case(&data) {
                    Some(c) => println!("{}", serde_json::to_string(&c).unwrap()),
                    None => std::process::exit(3),
                },
                "faults" => match rv::fuzz::fault_case(&data) {
                    Some(c) => println!("{}", serde_json::to_string(&c).unwrap()),
                    None => std::process::exit(3),
                },
                "twins:C10" | "twins:C11" | "twins:C16" | "twins:C17" => match rv::fuzz::twin_cases(&data) {
                    Some(t) => println!(
                        "{}",
                        match &id[6..] {
                            "C10" => serde_json::to_string(&t.c10).unwrap(),
                            "C11" => serde_json::to_string(&t.c11).unwrap(),
                            "C16" => serde_json::to_string(&t.c16).unwrap(),
                            _ => serde_json::to_string(&t.c17).unwrap(),
                        }
                    ),
                    None => std::process::exit(3),
                },
                "kernel" => match rv::fuzz::kernel_case(&data) {
                    Some(c) => println!("{}", serde_json::to_string(&rv::props::c15::Case::Kernel(c)).unwrap()),
                    None => std::process::exit(3),
                },
                _ => usage(),
            }
            true
        }
        _ => usage(),
    };
    if !ok {
        eprintln!("unknown property {}", id);
        std::process::exit(2);
    }
    if matches!(args[1].as_str(), "check" | "replay") {
        // the workers' stderr files of this process
        let _ = std::fs::remove_dir_all(std::env::temp_dir().join(format!("rv-{}", std::process::id())));
    }
    std::process::exit(code);
}
