//! Resampler configurations (serialisable), constructors for all seven types x {f32,f64},
//! probing interpolators, and the common proptest strategies for configurations.
use crate::dynres::{Direct, DynRes, SampleX};
use proptest::prelude::*;
use rubato::sinc_interpolator::sinc_interpolator_avx::AvxInterpolator;
use rubato::sinc_interpolator::sinc_interpolator_sse::SseInterpolator;
use rubato::sinc_interpolator::{ScalarInterpolator, SincInterpolator};
use rubato::{
    FastFixedIn, FastFixedOut, FftFixedIn, FftFixedInOut, FftFixedOut, PolynomialDegree, SincFixedIn, SincFixedOut,
    SincInterpolationParameters, SincInterpolationType, WindowFunction,
};
use serde::{Deserialize, Serialize};
use std::sync::atomic::{AtomicU64, Ordering};
use std::sync::Arc;

#[derive(Clone, Copy, Debug, PartialEq, Eq, Hash, Serialize, Deserialize)]
pub enum Kind {
    FastIn,
    FastOut,
    SincIn,
    SincOut,
    FftIn,
    FftOut,
    FftInOut,
}
pub const ALL_KINDS: [Kind; 7] = [Kind::FastIn, Kind::FastOut, Kind::SincIn, Kind::SincOut, Kind::FftIn, Kind::FftOut, Kind::FftInOut];
pub const ASYNC_KINDS: [Kind; 4] = [Kind::FastIn, Kind::FastOut, Kind::SincIn, Kind::SincOut];

impl Kind {
    pub fn is_async(self) -> bool {
        matches!(self, Kind::FastIn | Kind::FastOut | Kind::SincIn | Kind::SincOut)
    }
    pub fn is_fft(self) -> bool {
        !self.is_async()
    }
    pub fn is_sinc(self) -> bool {
        matches!(self, Kind::SincIn | Kind::SincOut)
    }
    pub fn is_fast(self) -> bool {
        matches!(self, Kind::FastIn | Kind::FastOut)
    }
    pub fn fixed_in(self) -> bool {
        matches!(self, Kind::FastIn | Kind::SincIn | Kind::FftIn)
    }
    pub fn fixed_out(self) -> bool {
        matches!(self, Kind::FastOut | Kind::SincOut | Kind::FftOut)
    }
    /// output count is exact (== output_frames_next) for these
    pub fn exact_out(self) -> bool {
        !matches!(self, Kind::FastIn | Kind::SincIn)
    }
    pub fn name(self) -> &'static str {
        match self {
            Kind::FastIn => "FastIn",
            Kind::FastOut => "FastOut",
            Kind::SincIn => "SincIn",
            Kind::SincOut => "SincOut",
            Kind::FftIn => "FftIn",
            Kind::FftOut => "FftOut",
            Kind::FftInOut => "FftInOut",
        }
    }
}

#[derive(Clone, Copy, Debug, PartialEq, Eq, Hash, Serialize, Deserialize)]
pub enum Kernel {
    Dispatch,
    Scalar,
    Sse,
    Avx,
    /// records the index range of every call, then delegates to the scalar kernel
    RangeProbe,
    /// returns wave[index] + subindex/os (exact evaluation instant for the index signal)
    LinearProbe,
    /// a user-written interpolator of exactly `sinc_len` taps (any length, also odd: only the built-in kernels
    /// need multiples of 8), with the range accounting of RangeProbe; for twin comparisons, not for fidelity
    OddProbe,
}

#[derive(Clone, Debug, PartialEq, Serialize, Deserialize)]
pub struct Config {
    pub kind: Kind,
    pub f32: bool,
    pub ratio: f64,
    pub rate_in: usize,
    pub rate_out: usize,
    pub max_rel: f64,
    pub chunk: usize,
    pub sub_chunks: usize,
    pub channels: usize,
    pub degree: u8,
    pub sinc_len: usize,
    pub f_cutoff: f32,
    pub os: usize,
    pub interp: u8,
    pub window: u8,
    pub kernel: Kernel,
    /// true only in known-finding replays: do not map the configuration out of known-failing regions
    #[serde(default)]
    pub allow_known: bool,
}

impl Default for Config {
    fn default() -> Self {
        Config {
            kind: Kind::FastIn,
            f32: false,
            ratio: 1.0,
            rate_in: 1,
            rate_out: 1,
            max_rel: 1.0,
            chunk: 64,
            sub_chunks: 1,
            channels: 1,
            degree: 2,
            sinc_len: 64,
            f_cutoff: 0.9,
            os: 16,
            interp: 0,
            window: 2,
            kernel: Kernel::Dispatch,
            allow_known: false,
        }
    }
}

pub fn degree_of(d: u8) -> PolynomialDegree {
    match d % 5 {
        0 => PolynomialDegree::Septic,
        1 => PolynomialDegree::Quintic,
        2 => PolynomialDegree::Cubic,
        3 => PolynomialDegree::Linear,
        _ => PolynomialDegree::Nearest,
    }
}
pub fn interp_of(i: u8) -> SincInterpolationType {
    match i % 4 {
        0 => SincInterpolationType::Cubic,
        1 => SincInterpolationType::Quadratic,
        2 => SincInterpolationType::Linear,
        _ => SincInterpolationType::Nearest,
    }
}
/// 0 Hann, 1 Hann2, 2 Blackman, 3 Blackman2, 4 BlackmanHarris, 5 BlackmanHarris2
pub fn window_of(w: u8) -> WindowFunction {
    match w % 6 {
        0 => WindowFunction::Hann,
        1 => WindowFunction::Hann2,
        2 => WindowFunction::Blackman,
        3 => WindowFunction::Blackman2,
        4 => WindowFunction::BlackmanHarris,
        _ => WindowFunction::BlackmanHarris2,
    }
}
pub const WINDOW_NAMES: [&str; 6] = ["Hann", "Hann2", "Blackman", "Blackman2", "BlackmanHarris", "BlackmanHarris2"];

pub fn gcd(a: usize, b: usize) -> usize {
    if b == 0 {
        a
    } else {
        gcd(b, a % b)
    }
}

impl Config {
    /// Exclusion by construction of configurations that fail for a listed known finding
    /// (DESIGN §6/§7). Returns the configuration actually used and one label per exclusion.
    pub fn sanitized(&self) -> (Config, Vec<&'static str>) {
        let mut c = self.clone();
        let mut labels = vec![];
        if !c.allow_known {
            // D13: cubic / quadratic blending with a single sinc per sample panics
            if c.kind.is_sinc() && c.interp % 4 <= 1 && c.os == 1 {
                c.os = 2;
                labels.push("excluded:D13(cubic|quadratic,os=1->2)");
            }
            if c.kind.is_sinc() && c.kernel == Kernel::OddProbe && c.sinc_len < 8 {
                c.sinc_len = 8;
                labels.push("excluded:D18(user-written interpolator shorter than 8 taps -> 8)");
            }
        }
        (c, labels)
    }
    pub fn nominal_ratio(&self) -> f64 {
        if self.kind.is_async() {
            self.ratio
        } else {
            self.rate_out as f64 / self.rate_in as f64
        }
    }
    /// Filter length L as used by the position arithmetic (sinc: rounded up to a multiple of 8).
    pub fn filt_len(&self) -> usize {
        match self.kind {
            Kind::FastIn | Kind::FastOut => 8,
            // known finding D18: user-written interpolators shorter than 8 taps (no built-in kernel can be) get windows one
            // frame past the buffer; excluded by construction (lengths below 8 are raised to 8) unless a known-finding replay asks
            Kind::SincIn | Kind::SincOut if self.kernel == Kernel::OddProbe => if self.allow_known { self.sinc_len.max(1) } else { self.sinc_len.max(8) },
            Kind::SincIn | Kind::SincOut => 8 * ((self.sinc_len as f32 / 8.0).ceil() as usize),
            _ => 0,
        }
    }
    /// cutoff actually used for the table
    pub fn eff_cutoff(&self) -> f32 {
        if self.ratio >= 1.0 {
            self.f_cutoff
        } else {
            self.f_cutoff * self.ratio as f32
        }
    }
    /// FFT block sizes (in, out) from an independent integer re-derivation: k = ceil(per/min), per = chunk / sub.
    pub fn fft_blocks(&self) -> (usize, usize) {
        let g = gcd(self.rate_in, self.rate_out);
        let (min_in, min_out) = (self.rate_in / g, self.rate_out / g);
        let per = match self.kind {
            Kind::FftInOut => self.chunk,
            _ => (self.chunk / self.sub_chunks.max(1)).max(1),
        };
        let min = if self.kind == Kind::FftOut { min_out } else { min_in };
        let k = (per + min - 1) / min;
        (k * min_in, k * min_out)
    }
    pub fn sinc_params(&self) -> SincInterpolationParameters {
        SincInterpolationParameters {
            sinc_len: self.sinc_len,
            f_cutoff: self.f_cutoff,
            oversampling_factor: self.os,
            interpolation: interp_of(self.interp),
            window: window_of(self.window),
        }
    }
}

#[derive(Default)]
pub struct ProbeStat {
    pub calls: AtomicU64,
    pub out_of_range: AtomicU64,
    pub bad_sub: AtomicU64,
    pub noncontig: AtomicU64,
    pub max_end: AtomicU64,
    pub min_start: AtomicU64,
    pub wave_len: AtomicU64,
    /// LinearProbe only: one entry per call, 0 = window starts in the zero pre-roll, 1 = consecutive
    /// supplied frames, 2 = poisoned (not consecutive supplied frames)
    pub log: std::sync::Mutex<Vec<u8>>,
}
impl ProbeStat {
    pub fn new() -> Arc<ProbeStat> {
        let p = ProbeStat::default();
        p.min_start.store(u64::MAX, Ordering::Relaxed);
        Arc::new(p)
    }
}

pub struct RangeProbe<T> {
    inner: ScalarInterpolator<T>,
    stat: Arc<ProbeStat>,
}
impl<T: SampleX> SincInterpolator<T> for RangeProbe<T> {
    fn get_sinc_interpolated(&self, wave: &[T], index: usize, subindex: usize) -> T {
        let s = &self.stat;
        s.calls.fetch_add(1, Ordering::Relaxed);
        s.wave_len.store(wave.len() as u64, Ordering::Relaxed);
        let len = self.inner.len();
        let end = index.checked_add(len);
        let ok = matches!(end, Some(e) if e < wave.len());
        if subindex >= self.inner.nbr_sincs() {
            s.bad_sub.fetch_add(1, Ordering::Relaxed);
        }
        if !ok {
            s.out_of_range.fetch_add(1, Ordering::Relaxed);
            return T::of64(0.0);
        }
        s.max_end.fetch_max(end.unwrap() as u64, Ordering::Relaxed);
        s.min_start.fetch_min(index as u64, Ordering::Relaxed);
        if subindex >= self.inner.nbr_sincs() {
            return T::of64(0.0);
        }
        self.inner.get_sinc_interpolated(wave, index, subindex)
    }
    fn len(&self) -> usize {
        self.inner.len()
    }
    fn nbr_sincs(&self) -> usize {
        self.inner.nbr_sincs()
    }
}

/// base value of the index signal used with the LinearProbe: x[n] = INDEX_BASE + n, so that the
/// zero pre-roll of a fresh resampler is distinguishable from supplied frames
pub const INDEX_BASE: f64 = 1000.0;
/// A poisoned window reports an instant that is off by PROBE_POISON / oversampling frames. The weight
/// of a point in the blend is at rounding level when the position is within its accumulated rounding
/// error of a grid point; that error grows with the number N of steps in the chunk (adding the same step
/// N times in one binade repeats the same rounding error), up to N/2 ulp(position), i.e. a weight of up to
/// N/2 ulp x oversampling. With PROBE_POISON = 2^-10 such a point moves the output by less than
/// N/2048 ulp, below the spacing tolerance of 256 ulp for every N the generators produce (< 2^17),
/// while a point with real weight w moves it by w / (1024 x oversampling) frames, and a window start that
/// is itself stale by the full data shift.
pub const PROBE_POISON: f64 = 1.0 / 1024.0;

pub struct OddProbe {
    len: usize,
    os: usize,
    /// table[sub][tap], f64
    table: Vec<Vec<f64>>,
    stat: Arc<ProbeStat>,
}
impl OddProbe {
    pub fn new(len: usize, os: usize, fc: f64, stat: Arc<ProbeStat>) -> OddProbe {
        let os = os.max(1);
        let centre = (len / 2) as f64;
        let pi = std::f64::consts::PI;
        let mut table = vec![vec![0.0f64; len]; os];
        for (s, row) in table.iter_mut().enumerate() {
            for (k, h) in row.iter_mut().enumerate() {
                let x = k as f64 - centre + 1.0 - (s as f64 + 1.0) / os as f64;
                let w = 0.5 + 0.5 * (2.0 * pi * x / (len as f64 + 1.0)).cos();
                let a = pi * fc * x;
                *h = fc * w * if a.abs() < 1e-12 { 1.0 } else { a.sin() / a };
            }
        }
        OddProbe { len, os, table, stat }
    }
}
impl<T: SampleX> SincInterpolator<T> for OddProbe {
    fn get_sinc_interpolated(&self, wave: &[T], index: usize, subindex: usize) -> T {
        let s = &self.stat;
        s.calls.fetch_add(1, Ordering::Relaxed);
        s.wave_len.store(wave.len() as u64, Ordering::Relaxed);
        let end = index.checked_add(self.len);
        let ok = matches!(end, Some(e) if e < wave.len());
        if subindex >= self.os {
            s.bad_sub.fetch_add(1, Ordering::Relaxed);
        }
        if !ok {
            s.out_of_range.fetch_add(1, Ordering::Relaxed);
            return T::of64(0.0);
        }
        s.max_end.fetch_max(end.unwrap() as u64, Ordering::Relaxed);
        s.min_start.fetch_min(index as u64, Ordering::Relaxed);
        if subindex >= self.os {
            return T::of64(0.0);
        }
        let row = &self.table[subindex];
        let mut acc = 0.0f64;
        for k in 0..self.len {
            acc += row[k] * wave[index + k].f64v();
        }
        T::of64(acc)
    }
    fn len(&self) -> usize {
        self.len
    }
    fn nbr_sincs(&self) -> usize {
        self.os
    }
}
pub struct LinearProbe {
    len: usize,
    os: usize,
    stat: Arc<ProbeStat>,
}
impl<T: SampleX> SincInterpolator<T> for LinearProbe {
    fn get_sinc_interpolated(&self, wave: &[T], index: usize, subindex: usize) -> T {
        let s = &self.stat;
        s.calls.fetch_add(1, Ordering::Relaxed);
        s.wave_len.store(wave.len() as u64, Ordering::Relaxed);
        let end = index.checked_add(self.len);
        let ok = matches!(end, Some(e) if e < wave.len());
        if subindex >= self.os {
            s.bad_sub.fetch_add(1, Ordering::Relaxed);
        }
        if !ok {
            s.out_of_range.fetch_add(1, Ordering::Relaxed);
            return T::of64(f64::NAN);
        }
        let first = wave[index].f64v();
        let last = wave[index + self.len - 1].f64v();
        let mut bad = false;
        let mut status = 0u8;
        if first >= INDEX_BASE {
            status = 1;
            // window starts in supplied frames: it must hold `len` consecutive supplied frames
            s.max_end.store(1, Ordering::Relaxed);
            if (last - first - (self.len - 1) as f64).abs() > 1e-6 {
                bad = true;
            }
        } else if s.max_end.load(Ordering::Relaxed) == 1 && !(last >= INDEX_BASE) {
            // after the pre-roll is over no window may lie entirely in never-supplied storage
            bad = true;
        }
        if bad {
            status = 2;
        }
        s.log.lock().unwrap().push(status);
        if bad {
            // A window that is not made of consecutive supplied frames poisons the point: if the
            // blend gives it any weight, the reported instant is visibly wrong (a point with weight
            // exactly zero, as happens for positions exactly on the grid, has no influence).
            s.noncontig.fetch_add(1, Ordering::Relaxed);
            return T::of64(first + (subindex as f64 + PROBE_POISON) / self.os as f64);
        }
        T::of64(first + subindex as f64 / self.os as f64)
    }
    fn len(&self) -> usize {
        self.len
    }
    fn nbr_sincs(&self) -> usize {
        self.os
    }
}

pub struct Built<T> {
    pub res: Box<dyn DynRes<T>>,
    pub probe: Option<Arc<ProbeStat>>,
}

fn make_kernel<T: SampleX>(c: &Config) -> Result<(Box<dyn SincInterpolator<T>>, Option<Arc<ProbeStat>>), String> {
    let l = c.filt_len();
    let fc = c.eff_cutoff();
    let w = window_of(c.window);
    Ok(match c.kernel {
        Kernel::Dispatch => unreachable!(),
        Kernel::Scalar => (Box::new(ScalarInterpolator::<T>::new(l, c.os, fc, w)), None),
        Kernel::Sse => (Box::new(SseInterpolator::<T>::new(l, c.os, fc, w).map_err(|e| e.to_string())?), None),
        Kernel::Avx => (Box::new(AvxInterpolator::<T>::new(l, c.os, fc, w).map_err(|e| e.to_string())?), None),
        Kernel::RangeProbe => {
            let stat = ProbeStat::new();
            (Box::new(RangeProbe { inner: ScalarInterpolator::<T>::new(l, c.os, fc, w), stat: stat.clone() }), Some(stat))
        }
        Kernel::LinearProbe => {
            let stat = ProbeStat::new();
            (Box::new(LinearProbe { len: l, os: c.os, stat: stat.clone() }), Some(stat))
        }
        Kernel::OddProbe => {
            let stat = ProbeStat::new();
            (Box::new(OddProbe::new(l, c.os, fc as f64, stat.clone())), Some(stat))
        }
    })
}

/// Construct the resampler described by `c`. Err(text) is a constructor rejection.
pub fn build<T: SampleX>(c: &Config) -> Result<Built<T>, String> {
    let e = |e: rubato::ResamplerConstructionError| e.to_string();
    Ok(match c.kind {
        Kind::FastIn => Built { res: Box::new(Direct(FastFixedIn::<T>::new(c.ratio, c.max_rel, degree_of(c.degree), c.chunk, c.channels).map_err(e)?)), probe: None },
        Kind::FastOut => Built { res: Box::new(Direct(FastFixedOut::<T>::new(c.ratio, c.max_rel, degree_of(c.degree), c.chunk, c.channels).map_err(e)?)), probe: None },
        Kind::SincIn => {
            if c.kernel == Kernel::Dispatch {
                Built { res: Box::new(Direct(SincFixedIn::<T>::new(c.ratio, c.max_rel, c.sinc_params(), c.chunk, c.channels).map_err(e)?)), probe: None }
            } else {
                let (k, probe) = make_kernel::<T>(c)?;
                Built { res: Box::new(Direct(SincFixedIn::<T>::new_with_interpolator(c.ratio, c.max_rel, interp_of(c.interp), k, c.chunk, c.channels).map_err(e)?)), probe }
            }
        }
        Kind::SincOut => {
            if c.kernel == Kernel::Dispatch {
                Built { res: Box::new(Direct(SincFixedOut::<T>::new(c.ratio, c.max_rel, c.sinc_params(), c.chunk, c.channels).map_err(e)?)), probe: None }
            } else {
                let (k, probe) = make_kernel::<T>(c)?;
                Built { res: Box::new(Direct(SincFixedOut::<T>::new_with_interpolator(c.ratio, c.max_rel, interp_of(c.interp), k, c.chunk, c.channels).map_err(e)?)), probe }
            }
        }
        Kind::FftIn => Built { res: Box::new(Direct(FftFixedIn::<T>::new(c.rate_in, c.rate_out, c.chunk, c.sub_chunks, c.channels).map_err(e)?)), probe: None },
        Kind::FftOut => Built { res: Box::new(Direct(FftFixedOut::<T>::new(c.rate_in, c.rate_out, c.chunk, c.sub_chunks, c.channels).map_err(e)?)), probe: None },
        Kind::FftInOut => Built { res: Box::new(Direct(FftFixedInOut::<T>::new(c.rate_in, c.rate_out, c.chunk, c.channels).map_err(e)?)), probe: None },
    })
}

/// The same resamplers reached through the object-safe wrapper trait (dispatch kernels only).
pub fn build_vec<T: SampleX>(c: &Config) -> Result<Box<dyn rubato::VecResampler<T>>, String> {
    let e = |e: rubato::ResamplerConstructionError| e.to_string();
    Ok(match c.kind {
        Kind::FastIn => Box::new(FastFixedIn::<T>::new(c.ratio, c.max_rel, degree_of(c.degree), c.chunk, c.channels).map_err(e)?),
        Kind::FastOut => Box::new(FastFixedOut::<T>::new(c.ratio, c.max_rel, degree_of(c.degree), c.chunk, c.channels).map_err(e)?),
        Kind::SincIn => Box::new(SincFixedIn::<T>::new(c.ratio, c.max_rel, c.sinc_params(), c.chunk, c.channels).map_err(e)?),
        Kind::SincOut => Box::new(SincFixedOut::<T>::new(c.ratio, c.max_rel, c.sinc_params(), c.chunk, c.channels).map_err(e)?),
        Kind::FftIn => Box::new(FftFixedIn::<T>::new(c.rate_in, c.rate_out, c.chunk, c.sub_chunks, c.channels).map_err(e)?),
        Kind::FftOut => Box::new(FftFixedOut::<T>::new(c.rate_in, c.rate_out, c.chunk, c.sub_chunks, c.channels).map_err(e)?),
        Kind::FftInOut => Box::new(FftFixedInOut::<T>::new(c.rate_in, c.rate_out, c.chunk, c.channels).map_err(e)?),
    })
}

// ---------------------------------------------------------------------------------------------
// strategies

pub const AWKWARD_RATIOS: [f64; 24] = [
    0.35, 0.7, 44100.0 / 48000.0, 48000.0 / 44100.0, 0.5, 2.0, 0.25, 4.0, 0.1, 0.125, 0.2, 0.3, 0.4, 0.75, 0.8, 1.0, 1.25, 1.5, 2.5, 3.0, 5.0, 8.0, 10.0,
    1.0 / 3.0,
];

pub fn ratio_strategy() -> BoxedStrategy<f64> {
    prop_oneof![
        4 => (0.0f64..1.0).prop_map(|u| (1.0f64 / 16.0) * 256f64.powf(u)),
        1 => (0usize..AWKWARD_RATIOS.len()).prop_map(|i| AWKWARD_RATIOS[i]),
    ]
    .boxed()
}

pub const MAX_RELS: [f64; 7] = [1.0, 1.01, 1.1, 1.25, 2.0, 4.0, 10.0];
pub fn max_rel_strategy(cap: f64) -> BoxedStrategy<f64> {
    prop_oneof![
        3 => (0usize..MAX_RELS.len()).prop_map(move |i| MAX_RELS[i].min(cap)),
        1 => (0.0f64..1.0).prop_map(move |u| cap.min(16.0).powf(u)),
    ]
    .boxed()
}

/// chunk sizes 1..=max with half of the mass <= 64
pub fn chunk_strategy(max: usize) -> BoxedStrategy<usize> {
    let small = max.min(64);
    prop_oneof![
        1 => 1usize..=small.min(16),
        1 => 1usize..=small,
        2 => 1usize..=max,
    ]
    .boxed()
}

pub const AUDIO_RATES: [usize; 12] = [8000, 11025, 16000, 22050, 32000, 44100, 48000, 88200, 96000, 176400, 192000, 384000];

/// (rate_in, rate_out) pairs whose reduced block sizes stay <= `max_block`
pub fn rate_pair_strategy(max_block: usize) -> BoxedStrategy<(usize, usize)> {
    let ok = move |p: &(usize, usize)| {
        let g = gcd(p.0, p.1);
        (p.0 / g).max(p.1 / g) <= max_block
    };
    prop_oneof![
        2 => (0usize..AUDIO_RATES.len(), 0usize..AUDIO_RATES.len()).prop_map(|(a, b)| (AUDIO_RATES[a], AUDIO_RATES[b])),
        2 => (1usize..=64, 1usize..=64),
        1 => (1usize..=1000, 1usize..=1000),
        1 => (1usize..=64, 1usize..=64, 1usize..=1000).prop_map(|(a, b, m)| (a * m, b * m)),
    ]
    .prop_map(move |p| if ok(&p) { p } else {
        // construct, do not reject: reduce to a pair with the same quotient class but small blocks
        let g = gcd(p.0, p.1);
        let (a, b) = (p.0 / g, p.1 / g);
        let s = (a.max(b) + max_block - 1) / max_block;
        ((a / s).max(1), (b / s).max(1))
    })
    .boxed()
}

#[derive(Clone, Copy, Debug)]
pub struct CfgSpace {
    pub kinds: &'static [Kind],
    pub max_chunk: usize,
    pub max_channels: usize,
    pub max_sinc_len: usize,
    pub min_sinc_len: usize,
    pub max_os: usize,
    pub max_rel_cap: f64,
    pub max_fft_block: usize,
    pub probes: bool,
    pub both_samples: bool,
}

impl CfgSpace {
    pub fn histories(tier_thorough: bool) -> CfgSpace {
        CfgSpace {
            kinds: &ALL_KINDS,
            max_chunk: if tier_thorough { 2048 } else { 512 },
            max_channels: 4,
            max_sinc_len: if tier_thorough { 256 } else { 96 },
            min_sinc_len: 1,
            max_os: if tier_thorough { 256 } else { 32 },
            max_rel_cap: 16.0,
            max_fft_block: if tier_thorough { 2048 } else { 512 },
            probes: true,
            both_samples: true,
        }
    }
}

pub fn config_strategy(sp: CfgSpace) -> BoxedStrategy<Config> {
    let kinds = sp.kinds;
    let a = (
        (0usize..kinds.len()).prop_map(move |i| kinds[i]),
        any::<bool>(),
        ratio_strategy(),
        rate_pair_strategy(sp.max_fft_block),
        max_rel_strategy(sp.max_rel_cap),
        chunk_strategy(sp.max_chunk),
        prop_oneof![3 => Just(1usize), 1 => 1usize..=8],
        prop_oneof![2 => Just(1usize), 1 => 1usize..=sp.max_channels],
    );
    let b = (
        0u8..5,
        prop_oneof![1 => Just(sp.min_sinc_len), 4 => sp.min_sinc_len..=sp.max_sinc_len],
        prop_oneof![1 => Just(0.95f32), 2 => (0.3f32..1.0)],
        prop_oneof![1 => Just(1usize), 1 => Just(2usize), 4 => (0.0f64..1.0).prop_map(move |u| ((sp.max_os as f64 + 0.99).powf(u)).floor().max(1.0) as usize)],
        0u8..4,
        0u8..6,
        0u8..6,
    );
    (a, b)
        .prop_map(move |((kind, f32_, ratio, rates, max_rel, chunk, sub, channels), (degree, sinc_len, f_cutoff, os, interp, window, kern))| {
            let kernel = if !kind.is_sinc() {
                Kernel::Dispatch
            } else {
                match kern {
                    0 | 1 => Kernel::Dispatch,
                    2 => Kernel::Scalar,
                    3 => Kernel::Sse,
                    4 => Kernel::Avx,
                    _ => {
                        if sp.probes {
                            // a third of the probing kernels: a user-written interpolator of the literal (often odd) length
                            if (sinc_len + os + chunk) % 3 == 0 {
                                Kernel::OddProbe
                            } else {
                                Kernel::RangeProbe
                            }
                        } else {
                            Kernel::Dispatch
                        }
                    }
                }
            };
            // quadratic/cubic need at least 2 points between samples to be meaningful; os=1 is allowed by the code for all.
            Config {
                kind,
                f32: f32_ && sp.both_samples,
                ratio,
                rate_in: rates.0,
                rate_out: rates.1,
                max_rel,
                chunk,
                sub_chunks: sub,
                channels,
                degree,
                sinc_len,
                f_cutoff,
                os,
                interp,
                window,
                kernel,
                allow_known: false,
            }
        })
        .boxed()
}
