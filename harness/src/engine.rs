//! Generic check engine: replays, forced cases, 16 proptest lanes with crash-isolating worker
//! subprocesses, shrinking, replay files, known findings, evidence.
use proptest::strategy::{BoxedStrategy, Strategy};
use proptest::test_runner::{Config as PtConfig, RngSeed, TestCaseError, TestError, TestRunner};
use serde::de::DeserializeOwned;
use serde::{Deserialize, Serialize};
use std::collections::{BTreeMap, HashSet};
use std::io::{BufRead, BufReader, Write};
use std::path::{Path, PathBuf};
use std::process::{Child, ChildStdin, Command, Stdio};
use std::sync::atomic::{AtomicBool, Ordering};
use std::sync::mpsc::{channel, Receiver, RecvTimeoutError};
use std::sync::Mutex;
use std::time::{Duration, Instant};

#[derive(Clone, Copy, Debug, PartialEq, Eq)]
pub enum Tier {
    Quick,
    Thorough,
}
impl Tier {
    pub fn name(self) -> &'static str {
        match self {
            Tier::Quick => "quick",
            Tier::Thorough => "thorough",
        }
    }
    pub fn thorough(self) -> bool {
        self == Tier::Thorough
    }
}

#[derive(Clone, Debug, Serialize, Deserialize, PartialEq)]
pub struct Failure {
    /// stable signature: failure class + site, digits normalised
    pub sig: String,
    pub msg: String,
}

#[derive(Clone, Debug, Default, Serialize, Deserialize)]
pub struct Outcome {
    pub fail: Option<Failure>,
    pub nontrivial: bool,
    pub classes: Vec<String>,
    pub counters: BTreeMap<String, u64>,
    pub maxima: BTreeMap<String, f64>,
}
impl Outcome {
    pub fn class(&mut self, c: impl Into<String>) {
        self.classes.push(c.into());
    }
    pub fn count(&mut self, k: &str, n: u64) {
        *self.counters.entry(k.to_string()).or_insert(0) += n;
    }
    pub fn maxi(&mut self, k: &str, v: f64) {
        let e = self.maxima.entry(k.to_string()).or_insert(f64::MIN);
        if v > *e {
            *e = v;
        }
    }
    pub fn fail(&mut self, sig: impl Into<String>, msg: impl Into<String>) {
        if self.fail.is_none() {
            self.fail = Some(Failure { sig: sig.into(), msg: msg.into() });
        }
    }
    pub fn failed(&self) -> bool {
        self.fail.is_some()
    }
}

pub trait Property: Sync {
    type Case: Serialize + DeserializeOwned + Clone + std::fmt::Debug + Send + 'static;
    fn id(&self) -> &'static str;
    fn rule(&self) -> String;
    fn assumptions(&self) -> Vec<String>;
    /// run cases in a worker subprocess (aborts cannot be caught in-process)
    fn isolated(&self) -> bool {
        true
    }
    /// how many more times a shrunk failing case is executed when it passes on re-execution: properties whose
    /// failures depend on a thread schedule (C18) fail only sometimes for the same case
    fn rerun_attempts(&self) -> u32 {
        0
    }
    fn strategy(&self, tier: Tier) -> BoxedStrategy<Self::Case>;
    /// number of generated cases for the tier (summed over lanes)
    fn cases(&self, tier: Tier) -> u32;
    /// deterministic cases executed before the generated ones (forced classes, exhaustive tables)
    fn forced(&self, _tier: Tier) -> Vec<Self::Case> {
        vec![]
    }
    fn run(&self, case: &Self::Case) -> Outcome;
    /// health check over the aggregate; Some(text) => exit 2 (machinery problem, not a violation)
    fn health(&self, _agg: &Aggregate) -> Option<String> {
        None
    }
    /// per-case watchdog in seconds
    fn watchdog_s(&self, tier: Tier) -> u64 {
        if tier.thorough() {
            600
        } else {
            120
        }
    }
}

pub fn verif_root() -> PathBuf {
    std::env::var("VERIF_ROOT").map(PathBuf::from).unwrap_or_else(|_| PathBuf::from("/verif"))
}

pub fn normalize(s: &str) -> String {
    let mut out = String::new();
    let mut in_digits = false;
    for ch in s.chars() {
        if ch.is_ascii_digit() {
            if !in_digits {
                out.push('#');
                in_digits = true;
            }
        } else {
            in_digits = false;
            out.push(ch);
        }
    }
    out.chars().take(120).collect()
}

pub fn fnv(s: &str) -> u64 {
    let mut h: u64 = 0xcbf29ce484222325;
    for b in s.as_bytes() {
        h ^= *b as u64;
        h = h.wrapping_mul(0x100000001b3);
    }
    h
}
pub fn splitmix(mut x: u64) -> u64 {
    x = x.wrapping_add(0x9E3779B97F4A7C15);
    let mut z = x;
    z = (z ^ (z >> 30)).wrapping_mul(0xBF58476D1CE4E5B9);
    z = (z ^ (z >> 27)).wrapping_mul(0x94D049BB133111EB);
    z ^ (z >> 31)
}

// ---------------------------------------------------------------------------------------------
// panic capture

thread_local! { static LAST_PANIC: std::cell::RefCell<Option<String>> = const { std::cell::RefCell::new(None) }; }

static PANIC_TO_STDERR: AtomicBool = AtomicBool::new(false);

pub fn install_panic_hook() {
    std::panic::set_hook(Box::new(|info| {
        let msg = if let Some(s) = info.payload().downcast_ref::<&str>() {
            s.to_string()
        } else if let Some(s) = info.payload().downcast_ref::<String>() {
            s.clone()
        } else {
            "non-string panic".to_string()
        };
        let loc = info.location().map(|l| {
            let f = l.file();
            let f = f.rsplit('/').next().unwrap_or(f);
            format!("{}", f)
        });
        let text = format!("{} @{}", msg, loc.unwrap_or_default());
        if PANIC_TO_STDERR.load(Ordering::Relaxed) {
            eprintln!("PANIC: {}", text);
        }
        LAST_PANIC.with(|p| *p.borrow_mut() = Some(text));
    }));
}

/// Run the property in this process, turning a panic into a failing outcome.
pub fn run_caught<P: Property>(p: &P, case: &P::Case) -> Outcome {
    let r = std::panic::catch_unwind(std::panic::AssertUnwindSafe(|| p.run(case)));
    match r {
        Ok(o) => o,
        Err(_) => {
            let msg = LAST_PANIC.with(|p| p.borrow_mut().take()).unwrap_or_else(|| "panic".into());
            let mut o = Outcome::default();
            o.fail(format!("panic:{}", normalize(&msg)), msg);
            o
        }
    }
}

// ---------------------------------------------------------------------------------------------
// worker side

pub fn worker_main<P: Property>(p: &P) {
    install_panic_hook();
    PANIC_TO_STDERR.store(true, Ordering::Relaxed);
    let stdin = std::io::stdin();
    let mut out = std::io::stdout();
    for line in stdin.lock().lines() {
        let line = match line {
            Ok(l) => l,
            Err(_) => break,
        };
        if line.trim().is_empty() {
            continue;
        }
        let case: P::Case = match serde_json::from_str(&line) {
            Ok(c) => c,
            Err(e) => {
                let mut o = Outcome::default();
                o.fail("harness:bad-case-json", e.to_string());
                let _ = writeln!(out, "{}", serde_json::to_string(&o).unwrap());
                let _ = out.flush();
                continue;
            }
        };
        let o = run_caught(p, &case);
        let _ = writeln!(out, "{}", serde_json::to_string(&o).unwrap());
        let _ = out.flush();
    }
}

// ---------------------------------------------------------------------------------------------
// driver side: worker handle

struct Worker {
    child: Child,
    stdin: ChildStdin,
    rx: Receiver<String>,
    stderr_path: PathBuf,
}

pub enum Exec {
    Done(Outcome),
    Hang,
}

impl Worker {
    fn spawn(id: &str, lane: usize) -> Worker {
        let dir = std::env::temp_dir().join(format!("rv-{}", std::process::id()));
        let _ = std::fs::create_dir_all(&dir);
        let stderr_path = dir.join(format!("{}-lane{}.stderr", id, lane));
        let errf = std::fs::File::create(&stderr_path).expect("stderr file");
        let mut child = Command::new(std::env::current_exe().unwrap())
            .arg("worker")
            .arg(id)
            .env("RUST_BACKTRACE", "0")
            .stdin(Stdio::piped())
            .stdout(Stdio::piped())
            .stderr(Stdio::from(errf))
            .spawn()
            .expect("spawn worker");
        let stdin = child.stdin.take().unwrap();
        let stdout = child.stdout.take().unwrap();
        let (tx, rx) = channel();
        std::thread::spawn(move || {
            let rd = BufReader::new(stdout);
            for l in rd.lines() {
                match l {
                    Ok(l) => {
                        if tx.send(l).is_err() {
                            break;
                        }
                    }
                    Err(_) => break,
                }
            }
        });
        Worker { child, stdin, rx, stderr_path }
    }

    fn crash_outcome(&mut self) -> Outcome {
        let status = self.child.wait();
        let mut sigtxt = String::from("unknown");
        if let Ok(st) = status {
            #[cfg(unix)]
            {
                use std::os::unix::process::ExitStatusExt;
                if let Some(s) = st.signal() {
                    sigtxt = format!("signal{}", s);
                } else if let Some(c) = st.code() {
                    sigtxt = format!("exit{}", c);
                }
            }
        }
        let err = std::fs::read_to_string(&self.stderr_path).unwrap_or_default();
        let line = err
            .lines()
            .rev()
            .find(|l| {
                let t = l.trim();
                !t.is_empty() && !t.starts_with("note:") && !t.starts_with("This indicates") && !t.starts_with("thread caused")
            })
            .unwrap_or("")
            .trim()
            .to_string();
        // prefer the line naming the violated precondition / assertion when present
        let key = err
            .lines()
            .rev()
            .find(|l| l.contains("unsafe precondition") || l.contains("PANIC:") || l.contains("panicked") || l.contains("overflow") || l.contains("AddressSanitizer"))
            .map(|l| l.trim().to_string())
            .unwrap_or(line);
        let mut o = Outcome::default();
        o.fail(format!("crash:{}:{}", sigtxt, normalize(&key)), format!("worker died ({}): {}", sigtxt, key));
        o
    }

    fn run(&mut self, json: &str, watchdog: Duration) -> Result<Exec, ()> {
        if writeln!(self.stdin, "{}", json).is_err() || self.stdin.flush().is_err() {
            return Ok(Exec::Done(self.crash_outcome()));
        }
        match self.rx.recv_timeout(watchdog) {
            Ok(line) => match serde_json::from_str::<Outcome>(&line) {
                Ok(o) => Ok(Exec::Done(o)),
                Err(e) => {
                    let mut o = Outcome::default();
                    o.fail("harness:bad-outcome-json", format!("{}: {}", e, line));
                    Ok(Exec::Done(o))
                }
            },
            Err(RecvTimeoutError::Timeout) => {
                let _ = self.child.kill();
                let _ = self.child.wait();
                Ok(Exec::Hang)
            }
            Err(RecvTimeoutError::Disconnected) => Ok(Exec::Done(self.crash_outcome())),
        }
    }
}
impl Drop for Worker {
    fn drop(&mut self) {
        let _ = self.child.kill();
        let _ = self.child.wait();
        let _ = std::fs::remove_file(&self.stderr_path);
    }
}

struct Executor<'a, P: Property> {
    p: &'a P,
    lane: usize,
    worker: Option<Worker>,
    watchdog: Duration,
    pub respawns: u64,
}
impl<'a, P: Property> Executor<'a, P> {
    fn new(p: &'a P, lane: usize, tier: Tier) -> Self {
        Executor { p, lane, worker: None, watchdog: Duration::from_secs(p.watchdog_s(tier)), respawns: 0 }
    }
    fn exec(&mut self, case: &P::Case) -> Exec {
        if !self.p.isolated() {
            return Exec::Done(run_caught(self.p, case));
        }
        let json = serde_json::to_string(case).expect("case json");
        if self.worker.is_none() {
            self.worker = Some(Worker::spawn(self.p.id(), self.lane));
        }
        let r = self.worker.as_mut().unwrap().run(&json, self.watchdog).unwrap();
        let died = match &r {
            Exec::Hang => true,
            Exec::Done(o) => o.fail.as_ref().map(|f| f.sig.starts_with("crash:")).unwrap_or(false),
        };
        if died {
            self.worker = None;
            self.respawns += 1;
        }
        r
    }
}

// ---------------------------------------------------------------------------------------------
// replay files and known findings

#[derive(Clone, Debug, Serialize, Deserialize)]
pub struct ReplayFile {
    pub property: String,
    /// "pass" (regression case: must hold) or "known:<finding id>"
    pub expect: String,
    #[serde(default)]
    pub note: String,
    #[serde(default)]
    pub failure: Option<Failure>,
    pub case: serde_json::Value,
}

#[derive(Clone, Debug, Serialize, Deserialize)]
pub struct Finding {
    pub id: String,
    pub property: String,
    pub signature: String,
    pub replay: String,
    pub what: String,
}
#[derive(Clone, Debug, Default, Serialize, Deserialize)]
pub struct KnownFindings {
    #[serde(default)]
    pub findings: Vec<Finding>,
    #[serde(default)]
    pub fixed: Vec<String>,
}
pub fn load_known() -> KnownFindings {
    let p = verif_root().join("known_findings.json");
    match std::fs::read_to_string(&p) {
        Ok(s) => serde_json::from_str(&s).unwrap_or_else(|e| panic!("known_findings.json: {}", e)),
        Err(_) => KnownFindings::default(),
    }
}

// ---------------------------------------------------------------------------------------------
// aggregate / evidence

#[derive(Default, Debug)]
pub struct Aggregate {
    pub evaluations: u64,
    pub nontrivial: u64,
    pub distinct: HashSet<u64>,
    pub classes: BTreeMap<String, u64>,
    pub counters: BTreeMap<String, u64>,
    pub maxima: BTreeMap<String, f64>,
    pub samples: Vec<serde_json::Value>,
    pub respawns: u64,
}
impl Aggregate {
    fn add(&mut self, o: &Outcome, json: &str, keep_sample: bool) {
        self.evaluations += 1;
        if o.nontrivial {
            self.nontrivial += 1;
            self.distinct.insert(fnv(json));
            // up to three written-out cases; the first one is kept whatever its size
            if keep_sample && self.samples.len() < 3 && (json.len() < 6000 || self.samples.is_empty()) {
                if let Ok(v) = serde_json::from_str(json) {
                    self.samples.push(v);
                }
            }
        }
        for c in &o.classes {
            *self.classes.entry(c.clone()).or_insert(0) += 1;
        }
        for (k, v) in &o.counters {
            *self.counters.entry(k.clone()).or_insert(0) += v;
        }
        for (k, v) in &o.maxima {
            let e = self.maxima.entry(k.clone()).or_insert(f64::MIN);
            if *v > *e {
                *e = *v;
            }
        }
    }
    fn merge(&mut self, o: Aggregate) {
        self.evaluations += o.evaluations;
        self.nontrivial += o.nontrivial;
        self.distinct.extend(o.distinct);
        for (k, v) in o.classes {
            *self.classes.entry(k).or_insert(0) += v;
        }
        for (k, v) in o.counters {
            *self.counters.entry(k).or_insert(0) += v;
        }
        for (k, v) in o.maxima {
            let e = self.maxima.entry(k).or_insert(f64::MIN);
            if v > *e {
                *e = v;
            }
        }
        for s in o.samples {
            if self.samples.len() < 4 {
                self.samples.push(s);
            }
        }
        self.respawns += o.respawns;
    }
}

struct Violation {
    replay_path: PathBuf,
    failure: Failure,
}

fn write_found<P: Property>(p: &P, seed: u64, case_json: &serde_json::Value, failure: &Failure, note: &str) -> PathBuf {
    let dir = verif_root().join("found").join(p.id());
    let _ = std::fs::create_dir_all(&dir);
    let text = serde_json::to_string(case_json).unwrap();
    let path = dir.join(format!("{}-{:016x}.json", seed, fnv(&text)));
    let rf = ReplayFile { property: p.id().to_string(), expect: "pass".into(), note: note.to_string(), failure: Some(failure.clone()), case: case_json.clone() };
    std::fs::write(&path, serde_json::to_string_pretty(&rf).unwrap()).expect("write replay");
    path
}

fn lanes() -> usize {
    std::env::var("VERIF_LANES").ok().and_then(|s| s.parse().ok()).unwrap_or(16)
}

/// exit code
pub fn check<P: Property>(p: &P, tier: Tier, seed: u64) -> i32 {
    install_panic_hook();
    let t0 = Instant::now();
    let id = p.id();
    let known = load_known();
    let mut agg = Aggregate::default();
    let mut violations: Vec<Violation> = vec![];
    let mut known_lines: Vec<String> = vec![];
    let mut notes: Vec<String> = vec![];
    let mut hang = false;
    let mut replays_run = 0u64;

    // 1. committed replays (regression cases and known findings)
    {
        let dir = verif_root().join("replays").join(id);
        let mut files: Vec<PathBuf> = std::fs::read_dir(&dir).map(|d| d.filter_map(|e| e.ok().map(|e| e.path())).filter(|p| p.extension().map(|e| e == "json").unwrap_or(false)).collect()).unwrap_or_default();
        files.sort();
        let mut ex = Executor::new(p, 100, tier);
        for f in files {
            let text = std::fs::read_to_string(&f).expect("read replay");
            let rf: ReplayFile = match serde_json::from_str(&text) {
                Ok(r) => r,
                Err(e) => {
                    eprintln!("ERROR: replay file {} unreadable: {}", f.display(), e);
                    return 2;
                }
            };
            let case: P::Case = match serde_json::from_value(rf.case.clone()) {
                Ok(c) => c,
                Err(e) => {
                    eprintln!("ERROR: replay file {} has a case this build cannot read: {}", f.display(), e);
                    return 2;
                }
            };
            replays_run += 1;
            let o = match ex.exec(&case) {
                Exec::Done(o) => o,
                Exec::Hang => {
                    hang = true;
                    notes.push(format!("replay {} hung", f.display()));
                    continue;
                }
            };
            let cj = serde_json::to_string(&case).unwrap();
            if let Some(fid) = rf.expect.strip_prefix("known:") {
                let finding = known.findings.iter().find(|k| k.id == fid && k.property == id);
                match (finding, &o.fail) {
                    (Some(k), Some(fl)) if fl.sig == k.signature => {
                        known_lines.push(format!("KNOWN-FINDING: property={} {} [{}] {}", id, k.id, k.signature, k.what));
                        agg.counters.entry("known_findings_reproduced".into()).and_modify(|v| *v += 1).or_insert(1);
                    }
                    (Some(k), None) => {
                        notes.push(format!("known finding {} did not reproduce (repaired?)", k.id));
                    }
                    (Some(k), Some(fl)) => {
                        let path = write_found(p, seed, &rf.case, fl, &format!("known finding {} failed with a different signature (listed: {})", k.id, k.signature));
                        violations.push(Violation { replay_path: path, failure: fl.clone() });
                    }
                    (None, Some(fl)) => {
                        // replay refers to a finding that is not listed: treat as regression case
                        violations.push(Violation { replay_path: f.clone(), failure: fl.clone() });
                    }
                    (None, None) => {}
                }
            } else {
                agg.add(&o, &cj, false);
                if let Some(fl) = &o.fail {
                    violations.push(Violation { replay_path: f.clone(), failure: fl.clone() });
                }
            }
        }
        agg.respawns += ex.respawns;
    }

    // 2. forced cases
    if violations.is_empty() {
        let forced = p.forced(tier);
        let nl = lanes().min(forced.len().max(1));
        let chunks: Vec<Vec<P::Case>> = (0..nl).map(|l| forced.iter().skip(l).step_by(nl).cloned().collect()).collect();
        let results: Mutex<Vec<(Aggregate, Vec<(serde_json::Value, Failure)>, bool)>> = Mutex::new(vec![]);
        std::thread::scope(|s| {
            for (l, ch) in chunks.into_iter().enumerate() {
                let results = &results;
                s.spawn(move || {
                    let mut ex = Executor::new(p, 200 + l, tier);
                    let mut a = Aggregate::default();
                    let mut fails = vec![];
                    let mut h = false;
                    for c in ch {
                        let cj = serde_json::to_string(&c).unwrap();
                        match ex.exec(&c) {
                            Exec::Done(o) => {
                                a.add(&o, &cj, l == 0);
                                *a.counters.entry("forced_cases".into()).or_insert(0) += 1;
                                if let Some(fl) = o.fail {
                                    fails.push((serde_json::to_value(&c).unwrap(), fl));
                                    break;
                                }
                            }
                            Exec::Hang => {
                                h = true;
                                break;
                            }
                        }
                    }
                    a.respawns += ex.respawns;
                    results.lock().unwrap().push((a, fails, h));
                });
            }
        });
        for (a, fails, h) in results.into_inner().unwrap() {
            agg.merge(a);
            hang |= h;
            for (cv, fl) in fails {
                let path = write_found(p, seed, &cv, &fl, "forced case");
                violations.push(Violation { replay_path: path, failure: fl });
            }
        }
    }

    // 3. generated cases
    let total_cases = std::env::var("VERIF_CASES").ok().and_then(|s| s.parse::<u32>().ok()).unwrap_or_else(|| p.cases(tier));
    if violations.is_empty() && !hang && total_cases > 0 {
        let nl = lanes();
        let per_lane = (total_cases + nl as u32 - 1) / nl as u32;
        let stop = AtomicBool::new(false);
        let results: Mutex<Vec<(usize, Aggregate, Option<(serde_json::Value, Failure, String)>, bool)>> = Mutex::new(vec![]);
        std::thread::scope(|s| {
            for lane in 0..nl {
                let stop = &stop;
                let results = &results;
                s.spawn(move || {
                    let lane_seed = splitmix(seed ^ splitmix(lane as u64 + 1) ^ fnv(id));
                    let cfg = PtConfig {
                        cases: per_lane,
                        failure_persistence: None,
                        rng_seed: RngSeed::Fixed(lane_seed),
                        max_shrink_iters: if tier.thorough() { 20000 } else { 4000 },
                        max_global_rejects: 1_000_000,
                        max_local_rejects: 1_000_000,
                        ..PtConfig::default()
                    };
                    let mut runner = TestRunner::new(cfg);
                    let ex = std::cell::RefCell::new(Executor::new(p, lane, tier));
                    let a = std::cell::RefCell::new(Aggregate::default());
                    let failed = std::cell::Cell::new(false);
                    let hung = std::cell::Cell::new(false);
                    let strat = p.strategy(tier);
                    let res = runner.run(&strat, |case| {
                        if hung.get() || (stop.load(Ordering::Relaxed) && !failed.get()) {
                            return Ok(());
                        }
                        let r = ex.borrow_mut().exec(&case);
                        match r {
                            Exec::Hang => {
                                hung.set(true);
                                Ok(())
                            }
                            Exec::Done(o) => {
                                if !failed.get() {
                                    let cj = serde_json::to_string(&case).unwrap();
                                    a.borrow_mut().add(&o, &cj, lane == 0);
                                }
                                match o.fail {
                                    None => Ok(()),
                                    Some(fl) => {
                                        failed.set(true);
                                        stop.store(true, Ordering::Relaxed);
                                        Err(TestCaseError::fail(fl.sig))
                                    }
                                }
                            }
                        }
                    });
                    let mut found = None;
                    match res {
                        Ok(()) => {}
                        Err(TestError::Fail(_why, case)) => {
                            // re-run the minimal case to record its own failure text
                            let mut r = ex.borrow_mut().exec(&case);
                            for _ in 0..p.rerun_attempts() {
                                if !matches!(&r, Exec::Done(o) if o.fail.is_none()) {
                                    break;
                                }
                                r = ex.borrow_mut().exec(&case);
                            }
                            let fl = match r {
                                Exec::Done(o) => o.fail.unwrap_or(Failure { sig: "flaky:minimal-case-passed-on-rerun".into(), msg: "the shrunk case did not fail when re-run".into() }),
                                Exec::Hang => Failure { sig: "hang".into(), msg: "minimal case hung".into() },
                            };
                            found = Some((serde_json::to_value(&case).unwrap(), fl, format!("lane {} seed {}", lane, lane_seed)));
                        }
                        Err(TestError::Abort(why)) => {
                            found = None;
                            eprintln!("proptest aborted in lane {}: {}", lane, why);
                            hung.set(true);
                        }
                    }
                    let mut agg_l = a.into_inner();
                    agg_l.respawns += ex.borrow().respawns;
                    results.lock().unwrap().push((lane, agg_l, found, hung.get()));
                });
            }
        });
        let mut rs = results.into_inner().unwrap();
        rs.sort_by_key(|r| r.0);
        for (_lane, a, found, h) in rs {
            agg.merge(a);
            hang |= h;
            if let Some((cv, fl, note)) = found {
                if fl.sig.starts_with("flaky:") || fl.sig == "hang" {
                    notes.push(format!("lane result not reproducible: {}", fl.msg));
                    hang = true;
                    continue;
                }
                let path = write_found(p, seed, &cv, &fl, &format!("generated, shrunk; {}", note));
                violations.push(Violation { replay_path: path, failure: fl });
            }
        }
    }

    let wall = t0.elapsed().as_secs_f64();
    let health = if violations.is_empty() && !hang { p.health(&agg) } else { None };

    // evidence
    let mut coverage = serde_json::Map::new();
    coverage.insert("evaluations".into(), agg.evaluations.into());
    coverage.insert("distinct_nontrivial".into(), (agg.distinct.len() as u64).into());
    coverage.insert("nontrivial_total".into(), agg.nontrivial.into());
    coverage.insert("rule".into(), p.rule().into());
    coverage.insert("samples".into(), serde_json::Value::Array(agg.samples.clone()));
    coverage.insert("classes".into(), serde_json::to_value(&agg.classes).unwrap());
    let mut counters = agg.counters.clone();
    counters.insert("replays_run".into(), replays_run);
    counters.insert("worker_respawns".into(), agg.respawns);
    if let Some(v) = counters.get("traces_validated_against_impl").copied() {
        coverage.insert("traces_validated_against_impl".into(), v.into());
    }
    coverage.insert("counters".into(), serde_json::to_value(&counters).unwrap());
    let maxima: BTreeMap<String, serde_json::Value> = agg.maxima.iter().map(|(k, v)| (k.clone(), if v.is_finite() { serde_json::json!(v) } else { serde_json::json!(format!("{}", v)) })).collect();
    coverage.insert("maxima".into(), serde_json::to_value(&maxima).unwrap());
    coverage.insert("lanes".into(), (lanes() as u64).into());
    coverage.insert("generated_cases_requested".into(), (total_cases as u64).into());
    coverage.insert("known_findings".into(), serde_json::to_value(&known_lines).unwrap());
    coverage.insert("notes".into(), serde_json::to_value(&notes).unwrap());
    coverage.insert("inconclusive".into(), (hang || health.is_some()).into());
    if let Some(h) = &health {
        coverage.insert("health".into(), h.clone().into());
    }
    let ev = serde_json::json!({
        "property_id": id,
        "tier": tier.name(),
        "seed": seed,
        "level": "exploration",
        "coverage": coverage,
        "assumptions": p.assumptions(),
        "wall_s": wall,
        "violations": violations.len(),
    });
    let evdir = verif_root().join("evidence");
    let _ = std::fs::create_dir_all(&evdir);
    std::fs::write(evdir.join(format!("{}.json", id)), serde_json::to_string_pretty(&ev).unwrap()).expect("write evidence");

    for l in &known_lines {
        println!("{}", l);
    }
    for n in &notes {
        println!("NOTE: {}", n);
    }
    println!(
        "{} {} seed={} evaluations={} distinct_nontrivial={} replays={} wall={:.1}s",
        id,
        tier.name(),
        seed,
        agg.evaluations,
        agg.distinct.len(),
        replays_run,
        wall
    );
    if !violations.is_empty() {
        for v in &violations {
            println!("  failure: [{}] {}", v.failure.sig, v.failure.msg);
            println!("VIOLATION property={} replay={}", id, v.replay_path.display());
        }
        return 1;
    }
    if hang {
        println!("INCONCLUSIVE property={} (watchdog / non-reproducible lane result)", id);
        return 2;
    }
    if let Some(h) = health {
        println!("INCONCLUSIVE property={} health: {}", id, h);
        return 2;
    }
    0
}

/// `rv replay <ID> <file>`: re-execute exactly one saved case, bypassing proptest.
pub fn replay<P: Property>(p: &P, file: &Path) -> i32 {
    install_panic_hook();
    let text = match std::fs::read_to_string(file) {
        Ok(t) => t,
        Err(e) => {
            eprintln!("cannot read {}: {}", file.display(), e);
            return 2;
        }
    };
    let rf: ReplayFile = match serde_json::from_str(&text) {
        Ok(r) => r,
        Err(e) => {
            eprintln!("bad replay file: {}", e);
            return 2;
        }
    };
    let case: P::Case = match serde_json::from_value(rf.case.clone()) {
        Ok(c) => c,
        Err(e) => {
            eprintln!("bad case: {}", e);
            return 2;
        }
    };
    let mut ex = Executor::new(p, 300, Tier::Thorough);
    let mut r = ex.exec(&case);
    for _ in 0..p.rerun_attempts() {
        if !matches!(&r, Exec::Done(o) if o.fail.is_none()) {
            break;
        }
        r = ex.exec(&case);
    }
    match r {
        Exec::Hang => {
            println!("INCONCLUSIVE: hang");
            2
        }
        Exec::Done(o) => {
            println!("classes: {:?}", o.classes);
            println!("counters: {:?}", o.counters);
            println!("maxima: {:?}", o.maxima);
            match o.fail {
                None => {
                    println!("replay passed: property={} held on {}", p.id(), file.display());
                    0
                }
                Some(fl) => {
                    println!("  failure: [{}] {}", fl.sig, fl.msg);
                    if let Some(fid) = rf.expect.strip_prefix("known:") {
                        let known = load_known();
                        if let Some(k) = known.findings.iter().find(|k| k.id == fid && k.property == p.id() && k.signature == fl.sig) {
                            println!("KNOWN-FINDING: property={} {} [{}] {}", p.id(), k.id, k.signature, k.what);
                            return 0;
                        }
                    }
                    println!("VIOLATION property={} replay={}", p.id(), file.display());
                    1
                }
            }
        }
    }
}

/// `rv gen <ID> <n> <seed>`: print n generated cases (for corpus export / inspection)
pub fn gen<P: Property>(p: &P, n: usize, seed: u64, tier: Tier) {
    let mut runner = TestRunner::new(PtConfig { rng_seed: RngSeed::Fixed(seed), failure_persistence: None, ..PtConfig::default() });
    let strat = p.strategy(tier);
    for _ in 0..n {
        let v = strat.new_tree(&mut runner).unwrap();
        use proptest::strategy::ValueTree;
        println!("{}", serde_json::to_string(&v.current()).unwrap());
    }
}
