#![no_main]
//! bytes -> (configuration, history, knobs) -> the differential oracles of C10 (reset vs fresh),
//! C11 (n-channel vs single-channel vs masked), C16 (wrappers vs core) and C17 (f32 vs f64).
use libfuzzer_sys::fuzz_target;

fuzz_target!(|data: &[u8]| {
    if let Some(t) = rv::fuzz::twin_cases(data) {
        if let Some((id, o, case)) = rv::fuzz::run_twins(&t) {
            let f = o.fail.unwrap();
            eprintln!("RVFUZZ property={} sig={} case={}", id, f.sig, case);
            panic!("violation of {}: {}", id, f.sig);
        }
    }
});
