#![no_main]
//! bytes -> (length class, oversampling, window, waveform, alignment, points) -> C15 differential
//! oracle with NaN-poisoned surroundings; AddressSanitizer sees reads beyond the allocation.
use libfuzzer_sys::fuzz_target;

fuzz_target!(|data: &[u8]| {
    if let Some(c) = rv::fuzz::kernel_case(data) {
        if let Some(o) = rv::fuzz::run_kernel(&c) {
            let f = o.fail.unwrap();
            eprintln!("RVFUZZ property=C15 sig={} case={}", f.sig, serde_json::to_string(&c).unwrap());
            panic!("violation of C15: {}", f.sig);
        }
    }
});
