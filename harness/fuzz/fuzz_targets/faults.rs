#![no_main]
//! bytes -> (configuration, valid prefix, one malformed call with injected faults, valid suffix) -> C13:
//! the malformed call returns the matching Err, never panics, never writes (ASan sees an unchecked
//! write past a short buffer), and leaves the instance indistinguishable from a twin that never saw it.
use libfuzzer_sys::fuzz_target;

fuzz_target!(|data: &[u8]| {
    if let Some(c) = rv::fuzz::fault_case(data) {
        if let Some(o) = rv::fuzz::run_fault(&c) {
            let f = o.fail.unwrap();
            eprintln!("RVFUZZ property=C13 sig={} case={}", f.sig, serde_json::to_string(&c).unwrap());
            panic!("violation of C13: {}", f.sig);
        }
    }
});
