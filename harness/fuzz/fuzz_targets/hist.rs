#![no_main]
//! bytes -> call history (same envelope as the proptest strategies) -> C03 + C04 monitors.
//! A panic / abort / sanitizer report inside rubato is a crash by itself; an oracle failure is
//! turned into a panic carrying the signature and the decoded case.
use libfuzzer_sys::fuzz_target;

fuzz_target!(|data: &[u8]| {
    if let Some(c) = rv::fuzz::hist_case(data) {
        if let Some((id, o)) = rv::fuzz::run_hist(&c) {
            let f = o.fail.unwrap();
            eprintln!("RVFUZZ property={} sig={} case={}", id, f.sig, serde_json::to_string(&c).unwrap());
            panic!("violation of {}: {}", id, f.sig);
        }
    }
});
