#!/bin/sh
# tools/mutant.sh confirm <dir-with-patch.diff-and-demo.rs>
#     in a scratch worktree: patch applies, library tests pass with it, demo fails with it and passes without
# tools/mutant.sh run <patch.diff> <ID> [<ID> ...]
#     apply the patch to /repo, run the quick checks of the given properties, undo the patch
set -u
cmd="$1"; shift
case "$cmd" in
confirm)
  d=$(cd "$1" && pwd); wt=/tmp/confirm_wt
  git -C /repo worktree remove --force $wt >/dev/null 2>&1
  git -C /repo worktree add -q --detach $wt HEAD || exit 2
  mkdir -p $wt/tests; cp "$d/demo.rs" $wt/tests/demo_x.rs
  cd $wt
  echo "== demo on the unmodified library (must pass)"
  CARGO_TARGET_DIR=/tmp/confirm_target cargo test --offline --test demo_x 2>&1 | grep -E "^test result|panicked|error(\[|:)" | head -5
  git apply "$d/patch.diff" || { echo "PATCH DOES NOT APPLY"; exit 1; }
  echo "== library tests with the patch (must pass: 96 + 2)"
  CARGO_TARGET_DIR=/tmp/confirm_target cargo test --offline --lib 2>&1 | grep -E "^test result|error(\[|:)|warning: unused" | head -5
  CARGO_TARGET_DIR=/tmp/confirm_target cargo test --offline --doc 2>&1 | grep -E "^test result" | head -2
  echo "== demo with the patch (must fail)"
  CARGO_TARGET_DIR=/tmp/confirm_target cargo test --offline --test demo_x 2>&1 | grep -E "^test result|panicked" | head -5
  cd /; git -C /repo worktree remove --force $wt
  ;;
run)
  patch="$1"; shift
  if [ -n "$(git -C /repo status --porcelain)" ]; then echo "/repo is not clean"; exit 2; fi
  git -C /repo apply "$patch" || { echo "PATCH DOES NOT APPLY"; exit 1; }
  # evidence written while a mutant is applied must not survive
  rm -rf /tmp/evidence_keep; cp -r /verif/evidence /tmp/evidence_keep
  for id in "$@"; do
    out=$(cd /verif && ./check $id quick 2>&1); code=$?
    echo "[$id] exit=$code $(echo "$out" | grep -E "^$id " | tail -1)"
    echo "$out" | grep -E "failure:|VIOLATION|INCONCLUSIVE" | head -4 | cut -c1-260
  done
  git -C /repo checkout -- .
  git -C /repo status --porcelain
  rm -rf /verif/evidence; mv /tmp/evidence_keep /verif/evidence
  (cd /verif/harness && cargo build --release --offline >/dev/null 2>&1)
  ;;
scratch)
  # tools/mutant.sh scratch <name> <patch.diff> <ID>...   screening without touching /repo:
  # scratch worktree + copy of the harness pointed at it + copy of replays/known findings
  name="$1"; patch="$2"; shift 2
  base=/tmp/ms/$name; rm -rf $base; mkdir -p $base/root
  git -C /repo worktree prune
  git -C /repo worktree add -q --detach $base/repo HEAD || exit 2
  (cd $base/repo && git apply "$patch") || { echo "PATCH DOES NOT APPLY"; exit 1; }
  mkdir -p $base/harness && cp -r /verif/harness/src /verif/harness/Cargo.toml /verif/harness/Cargo.lock /verif/harness/.cargo $base/harness/
  sed -i "s#path = \"/repo\"#path = \"$base/repo\"#" $base/harness/Cargo.toml
  cp -r /verif/replays /verif/known_findings.json $base/root/
  (cd $base/harness && CARGO_TARGET_DIR=$base/target cargo build --release --offline >$base/build.log 2>&1) || { tail -5 $base/build.log; echo "BUILD FAILED"; exit 2; }
  for id in "$@"; do
    out=$(cd $base/root && VERIF_ROOT=$base/root ${VERIF_SEED:+VERIF_SEED=$VERIF_SEED} $base/target/release/rv check $id quick 2>&1); code=$?
    echo "[$name $id] exit=$code $(echo "$out" | grep -E "^$id " | tail -1)"
    echo "$out" | grep -E "failure:|INCONCLUSIVE" | head -2 | cut -c1-300
  done
  git -C /repo worktree remove --force $base/repo; rm -rf $base
  ;;
esac
