#!/usr/bin/env python3
"""tools/repo_protocol.py [<id-glob> ...]: run the target property's quick check against each seeded change under the
protocol of the brief - `git -C /repo apply <patch>`, `./check <ID> quick`, `git -C /repo checkout -- .` - and record
exit code and VIOLATION line in seeded/<id>/meta.json ("repo_protocol"). /repo must be clean and nothing else may use
/repo meanwhile. Evidence and found/ written while a change is applied are discarded."""
import fnmatch, glob, json, os, shutil, subprocess, sys
ROOT = os.path.dirname(os.path.dirname(os.path.abspath(__file__)))
pats = [a for a in sys.argv[1:] if not a.startswith("--")] or ["*"]
def sh(cmd, cwd=None):
    r = subprocess.run(cmd, shell=True, cwd=cwd, capture_output=True, text=True)
    return r.returncode, r.stdout + r.stderr
rc, out = sh("git -C /repo status --porcelain")
if out.strip():
    print("/repo is not clean"); sys.exit(2)
keep = "/tmp/evidence_keep_rp"
shutil.rmtree(keep, ignore_errors=True); shutil.copytree(f"{ROOT}/evidence", keep)
found_before = set(glob.glob(f"{ROOT}/found/*/*"))
try:
    for d in sorted(glob.glob(f"{ROOT}/seeded/*/")):
        name = os.path.basename(d.rstrip("/"))
        if not any(fnmatch.fnmatch(name, p) for p in pats):
            continue
        mp = f"{d}meta.json"
        m = json.load(open(mp))
        if m.get("repo_protocol", {}).get("exit") is not None and "--force" not in sys.argv:
            continue
        target = m["breaks_property"]
        rc, out = sh(f"git -C /repo apply {d}patch.diff")
        if rc != 0:
            print(name, "PATCH DOES NOT APPLY", out); continue
        try:
            rc, out = sh(f"./check {target} quick", cwd=ROOT)
        finally:
            sh("git -C /repo checkout -- .")
        viol = [l for l in out.splitlines() if l.startswith("VIOLATION")]
        m["repo_protocol"] = {"commands": [f"git -C /repo apply seeded/{name}/patch.diff", f"./check {target} quick", "git -C /repo checkout -- ."], "exit": rc, "violation_line": viol[0] if viol else None}
        json.dump(m, open(mp, "w"), indent=1)
        print(name, target, "exit", rc, viol[0] if viol else "", flush=True)
finally:
    sh("git -C /repo checkout -- .")
    shutil.rmtree(f"{ROOT}/evidence", ignore_errors=True); shutil.move(keep, f"{ROOT}/evidence")
    for f in set(glob.glob(f"{ROOT}/found/*/*")) - found_before:
        os.remove(f)
    sh("cargo build --release --offline", cwd=f"{ROOT}/harness")
    rc, out = sh("git -C /repo status --porcelain")
    print("repo status after:", out.strip() or "clean")
