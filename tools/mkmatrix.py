#!/usr/bin/env python3
"""Regenerates the sensitivity tables in DESIGN.md (between the MATRIX markers) from seeded/*/meta.json and sensitivity/*/meta.json."""
import json, glob, os, re
ROOT = os.path.dirname(os.path.dirname(os.path.abspath(__file__)))
def rows(pattern):
    out = []
    for f in sorted(glob.glob(os.path.join(ROOT, pattern))):
        out.append(json.load(open(f)))
    return out
lines = []
lines.append("**Seeded changes from independent sub-agents** (`/verif/seeded/<id>/`: patch.diff, demo.rs, README.md, meta.json). Each agent")
lines.append("got only the text of one property and a scratch worktree; each change compiles, passes the 96 + 2 existing tests, and comes")
lines.append("with a demonstration that fails with it and passes without it (all confirmed in a scratch worktree by `tools/seed.py`).")
lines.append("Columns: quick checks that report a violation (screened in a scratch copy), and the exit code of the target property's")
lines.append("quick check under the protocol of the brief (`git -C /repo apply`, `./check <ID> quick`, `git -C /repo checkout -- .`).")
lines.append("")
lines.append("| id | what it needs to manifest | caught by (quick tier) | target check on /repo |")
lines.append("|----|---------------------------|------------------------|-----------------------|")
for m in rows("seeded/*/meta.json"):
    c = m["confirmed_in_scratch_worktree"]
    rp = m.get("repo_protocol", {})
    lines.append(f"| {m['id']} | {m.get('needs_to_manifest','')} | {', '.join(m['caught_by']) or '-'} | {'VIOLATION (exit 1)' if rp.get('exit')==1 else ('exit '+str(rp.get('exit')) if rp else 'n/a')} |")
lines.append("")
lines.append("**Own sensitivity mutations** (`/verif/sensitivity/<name>/patch.diff`, from the lists in §5; no demonstration; 'tests' says")
lines.append("whether the 96 + 2 existing tests still pass with it):")
lines.append("")
lines.append("| mutation | tests | caught by (quick tier) |")
lines.append("|----------|-------|------------------------|")
for m in rows("sensitivity/*/meta.json"):
    c = m["confirmed_in_scratch_worktree"]
    lines.append(f"| {m['id']} | {'pass' if c.get('library_tests_96_plus_2_pass_with_patch') else 'fail'} | {', '.join(m['caught_by']) or '- (see text)'} |")
text = "\n".join(lines)
p = os.path.join(ROOT, "DESIGN.md")
s = open(p).read()
a = s.index("<!-- MATRIX-BEGIN -->") + len("<!-- MATRIX-BEGIN -->")
b = s.index("<!-- MATRIX-END -->")
s = s[:a] + "\n" + text + "\n" + s[b:]
open(p, "w").write(s)
print("matrix written:", len(lines), "lines")
