#!/usr/bin/env python3
"""tools/seed.py <prop> <m>  : confirm one seeded breaking change (from /tmp/mut/<prop>/out/m<m>) in a scratch
worktree, screen it against all quick checks in a scratch copy of the harness, and file it under
/verif/seeded/<prop>-m<m>/ (patch.diff, demo.rs, README.md, meta.json)."""
import json, os, re, shutil, subprocess, sys
if sys.argv[1] == "--own":
    # tools/seed.py --own <name>: one of the harness author's own sensitivity mutations (/verif/sensitivity/<name>/patch.diff, no demonstration)
    name = sys.argv[2]; prop = name[:3]; m = "0"
    dst = f"/verif/sensitivity/{name}"
else:
    wave, m = sys.argv[1], sys.argv[2]      # e.g. C03 or C03b (second wave)
    prop = wave[:3]
    src = f"/tmp/mut/{wave}/out/m{m}"
    name = f"{wave}-m{m}"
    dst = f"/verif/seeded/{name}"
    os.makedirs(dst, exist_ok=True)
    for f in ["patch.diff", "demo.rs", "README.md"]:
        if os.path.exists(f"{src}/{f}"):
            shutil.copy(f"{src}/{f}", f"{dst}/{f}")
has_demo = os.path.exists(f"{dst}/demo.rs")
wt = f"/tmp/confirm_{name}"
tgt = f"/tmp/confirm_target_{name}"
def sh(cmd, cwd=None, env=None):
    e = dict(os.environ); e.update(env or {})
    r = subprocess.run(cmd, shell=True, cwd=cwd, env=e, capture_output=True, text=True)
    return r.returncode, r.stdout + r.stderr
sh(f"git -C /repo worktree remove --force {wt}"); sh("git -C /repo worktree prune")
rc, out = sh(f"git -C /repo worktree add -q --detach {wt} HEAD")
os.makedirs(f"{wt}/tests", exist_ok=True)
if has_demo:
    shutil.copy(f"{dst}/demo.rs", f"{wt}/tests/demo_x.rs")
env = {"CARGO_TARGET_DIR": tgt}
def results(out):
    return re.findall(r"test result: (\w+)\. (\d+) passed; (\d+) failed", out)
rc1, o1 = sh("cargo test --offline --test demo_x", cwd=wt, env=env) if has_demo else (0, "")
demo_clean = rc1 == 0
rc, o = sh(f"git apply {dst}/patch.diff", cwd=wt)
applies = rc == 0
rc2, o2 = sh("cargo test --offline --lib", cwd=wt, env=env)
rc3, o3 = sh("cargo test --offline --doc", cwd=wt, env=env)
lib = results(o2); doc = results(o3)
tests_ok = rc2 == 0 and rc3 == 0 and lib and lib[0][1] == "96" and doc and doc[0][1] == "2"
rc4, o4 = sh("cargo test --offline --test demo_x", cwd=wt, env=env) if has_demo else (1, "FAILED")
demo_mut = rc4 != 0 and ("panicked" in o4 or "FAILED" in o4 or "SIGABRT" in o4 or "signal" in o4)
sh(f"git -C /repo worktree remove --force {wt}")
shutil.rmtree(tgt, ignore_errors=True)
confirm = {"patch_applies": applies, "demo_passes_on_unmodified": demo_clean, "library_tests_96_plus_2_pass_with_patch": bool(tests_ok), "demo_fails_with_patch": bool(demo_mut)}
if not has_demo:
    confirm = {"patch_applies": applies, "library_tests_96_plus_2_pass_with_patch": bool(tests_ok)}
ids = [f"C{n:02d}" for n in range(1, 19)]
rc, out = sh(f"/verif/tools/mutant.sh scratch {name} {dst}/patch.diff " + " ".join(ids))
checks = {}
for line in out.splitlines():
    mm = re.match(r"\[\S+ (C\d\d)\] exit=(\d+)", line)
    if mm:
        checks[mm.group(1)] = int(mm.group(2))
fails = re.findall(r"failure: \[([^\]]+)\]", out)
meta = {"id": name, "breaks_property": prop, "source": "independent sub-agent given only the property text and a scratch worktree" if has_demo else "harness author's own sensitivity mutation (DESIGN.md §5 lists)",
        "confirmed_in_scratch_worktree": confirm,
        "quick_check_exit_codes": checks, "caught_by": sorted(k for k, v in checks.items() if v == 1),
        "failure_signatures": fails[:6],
        "what_ran": ["cargo test --offline --test demo_x (clean)", "git apply patch.diff", "cargo test --offline --lib / --doc", "cargo test --offline --test demo_x (patched)", "tools/mutant.sh scratch <name> patch.diff C01..C18 (quick tier, scratch copy of harness and worktree)"]}
try:
    old = json.load(open(f"{dst}/meta.json"))
    if "needs_to_manifest" in old:
        meta["needs_to_manifest"] = old["needs_to_manifest"]
except Exception:
    pass
json.dump(meta, open(f"{dst}/meta.json", "w"), indent=1)
print(name, confirm, "caught_by", meta["caught_by"])
