#!/usr/bin/env python3
"""Regenerates /verif/MANIFEST.json from the table below (single source for the interface file)."""
import json, os, sys
ROOT = os.path.dirname(os.path.dirname(os.path.abspath(__file__)))

BUILT = {
 "C01": ("property-based testing against an analytic reference: multi-tone inputs, least-squares fit at the known output frequencies, single fitted delay",
         "Generated sinc and FFT configurations (windows, lengths 64..512, interpolation types, oversampling 1..2048 with extreme values forced, cutoffs, ratios, rate pairs, chunk sizes, variants, kernels, f32/f64) and 1-4 tones below the passband edge; after the transient 4000 output frames are fitted: per-tone gain, RMS of everything that is not a predicted tone, and the residual against the input delayed by one fitted delay are bounded by the statement's figures (near-edge images: by the C02 figure, see known finding D11). Exploration level.",
         "numeric thresholds are those written in the statement; zone boundary D_FAR calibrated at design time; f32 floors at least 64 eps"),
 "C02": ("property-based testing against an analytic reference: stopband tones, per-line least-squares measurement of the tone and its predicted images; exact frequency response (DTFT) of the filter table read through the public kernel and of the impulse response of the whole stream at generated rational ratios; exhaustive table check of calculate_cutoff",
         "Generated configurations and one tone between the stopband edge and the input Nyquist (down- and up-sampling, FFT down-sampling): every predicted output line and the remainder must be below the stated rejection (3 dB stated measurement tolerance; FFT 100 dB); the -6.02 dB point at f_cutoff; the exact response of the filter table and of the stream's impulse response (ratios k/q) against the stated figure itself from the stated edge on; calculate_cutoff on all 12 102 (length, window) pairs (exhaustive). Exploration level.",
         "tone measurement: guard band of 0.10 transition half-widths above the fitted edge, interpolation term made negligible by construction; configurations whose pass band is narrower than 0.55 transition half-widths are excluded and counted (known finding D17)"),
 "C03": ("stateful property-based testing (proptest call histories, crash-isolating worker subprocess, probing interpolator, shrinking) + coverage-guided fuzzing (libFuzzer/ASan target hist) in the thorough tier",
         "Generated call histories over all seven types x {f32,f64} executed against the real resampler in a worker process built with debug assertions and overflow checks: an abort, panic, Err or an out-of-range request seen by the probing interpolator is a violation. Exploration only: holds on the histories generated, no absence proof.",
         "std unsafe-precondition checks and overflow checks turn UB into aborts; the harness position model (validated against the implementation on every call) defines the benign envelope for fixed-input ratio changes; NEON unreachable on this host"),
 "C04": ("stateful property-based testing with per-step invariants and an integer reference model for the FFT adapters; libFuzzer/ASan target hist in the thorough tier",
         "Same generated histories as C03; after every step the getters, the returned (in,out) tuple and the highest frame actually written (sentinel-filled buffers from the *_allocate helpers) are checked against the statement; FFT types additionally against an independently written integer block model. Exploration level.",
         "sentinel = NaN with a payload the resamplers never produce; buffers are allocated once from input/output_buffer_allocate and never grown"),
 "C05": ("metamorphic / differential property-based testing: same input through two chunkings, variants or set_chunk_size schedules, explicit position-rounding tolerance model",
         "Generated parameter sets and input streams run through two resamplers that differ in chunk size (1..4096), FixedIn/FixedOut(/InOut) variant or a mid-stream set_chunk_size schedule; the common prefix of the concatenated outputs is compared frame by frame (FFT variants bit-exactly; asynchronous ones within 8*(i+1)*ulp(idx_max)*slope, far below the 1e-3 effect of a lost, repeated or stale frame). Exploration level.",
         "constant ratio; nearest-neighbour ties get one grid step"),
 "C06": ("stateful property-based testing with an index-signal observable (output value = evaluation instant) and a linear probing interpolator; invariants over consecutive instants",
         "Generated histories of processing calls, stepped/ramped in-range ratio changes and chunk changes on the four asynchronous types, fed x[n]=n: each output IS its evaluation instant (polynomial exactness, resp. a probing SincInterpolator returning window start + subindex/oversampling and poisoning windows that are not consecutive supplied frames). Spacings are checked against a replica of the documented setter semantics. Exploration level.",
         "f64, nearest modes excluded; fixed-input ratio changes inside the benign envelope, their ramps with the bounded D9 allowance"),
 "C07": ("property-based testing with running-total invariants (u128 integer relations for the FFT types)",
         "Generated configurations (random ratios, coprime rate pairs, block sizes, tiny chunks, set_chunk_size schedules) driven for hundreds to 10^6 calls; after every call the totals of the returned (in,out) tuples are checked against the stated constant bound, resp. the exact integer relations for the synchronous types and the minimality of the FftFixedInOut block. Exploration level.",
         "constant ratio for the whole stream"),
 "C08": ("property-based testing against an analytic reference (generating polynomial / sinusoid evaluated at the documented instants)",
         "Random polynomials of admissible degree, every basis monomial (forced for all degrees, both variants, both sample types at >= 64 fractional positions) and sinusoids are resampled; each output frame is compared with the generating function at (j+1)/ratio - 4 within 64 eps_T x sum|coeff| plus the position-rounding model, sinusoids within the exact Lagrange remainder bound. Exploration level.",
         "analytic reference evaluated in f64"),
 "C09": ("stateful property-based testing with a counting global allocator as oracle",
         "Same generated histories; every process_into_buffer, setter, reset and getter call is bracketed by reads of a per-thread allocator counter (alloc, dealloc, realloc, alloc_zeroed); any traffic is a violation. Exploration level.",
         "allocator traffic is observed on the calling thread; rubato spawns no threads; `log` feature off"),
 "C10": ("stateful property-based testing, differential twin (used-then-reset instance vs freshly constructed instance), bit-exact comparison",
         "Generated dirty prefixes (ratio changes incl. pending ramps, chunk changes, masks, partial and failed calls), reset(), then a generated suffix on the reset instance and on a fresh twin fed identical samples: all getters and every returned count and output sample must be bit-identical. Ratios are biased to values where chunk/ratio is an integer up to rounding. Exploration level.",
         "prefix histories stay in the benign envelope (DESIGN §6)"),
 "C11": ("differential property-based testing: n-channel instance vs n single-channel twins vs masked instance, sentinel-filled inactive outputs",
         "Generated histories on 1..8 channels with independent noise per channel and a constant mask: the unmasked n-channel instance, the masked instance and n single-channel twins must agree bit-for-bit per channel and in all counts and getters; inactive outputs must keep their sentinel. Exploration level.",
         "mask constant over the stream"),
 "C12": ("property-based testing of the setters against a reference predicate, boundary/ulp-neighbour generators, differential twin",
         "Generated (original, max) pairs and control calls with arguments at the documented bounds, their ulp neighbours, interior/far/special values through both ratio setters, and boundary chunk sizes; accept/reject is compared with the documented predicate evaluated in f64, rejected calls must leave the instance indistinguishable from a twin, accepted relative calls must equal the accepted absolute call. Exploration level.",
         "the documented bounds are original/max, original*max (1/max, max for the relative setter) as a caller computes them in f64"),
 "C13": ("property-based fault injection into call histories (one or two malformed arguments), differential twin for state preservation; coverage-guided fuzzing (libFuzzer/ASan target faults) in the thorough tier",
         "A valid generated prefix, one malformed call (channel counts, short buffers, mask length) through process_into_buffer / process / process_partial_into_buffer, then a suffix compared bit-for-bit with a twin that never saw the malformed call; expected variant and fields computed by the harness; all seven constructors with each invalid argument class. Exploration level.",
         "multi-fault calls may return any matching error; NaN ratios not asserted; input-shape faults through process_partial_into_buffer not asserted (documented padding)"),
 "C14": ("property-based testing against an analytic reference: centroid of a generated band-limited event vs n*ratio + output_delay(), README recipe executed literally",
         "Generated configurations of all seven types and a Gaussian event (wide enough for the passband) at a generated position; the stream is produced as the README prescribes (process loop, process_partial, flush with None); the output event must be centred at n*ratio + output_delay() within max(1,ratio)+1 frames and the trimmed clip must contain the whole event at n*ratio. Exploration level.",
         "configurations without a passband are constructed away and counted"),
 "C15": ("differential property-based testing and fuzzing (libFuzzer/ASan target kernel in the thorough tier) of the kernels (AVX, SSE vs scalar vs an independently derived f64 table), NaN-poisoned surroundings for the read footprint, stream-level comparison of dispatch vs explicit kernels",
         "Generated and forced (every sinc length 8..512, both sample types) kernel cases: AVX/SSE vs scalar within (L/8+4) eps sum|products|, scalar vs reference table within 64 eps, bit-identical finite results when everything outside [index,index+L) is NaN, every slice alignment; plus sinc resamplers built with new() and on each kernel fed the same stream. Exploration level.",
         "NEON not executable on this host; dispatcher expected to select AVX here"),
 "C16": ("differential property-based testing: wrapper paths vs the core call on zero-padded input; Box<dyn VecResampler> vs direct",
         "Generated histories whose processing goes through process(), process_partial(_into_buffer)(Some/None) and, in half of the cases, through Box<dyn VecResampler>, against a twin executing process_into_buffer on the same frames zero-padded: every step bit-identical (values, counts, getters), empty vectors for masked channels, trailing flush calls included. Exploration level.",
         "VecResampler has no reset/set_chunk_size"),
 "C17": ("differential property-based testing: the same generated history on the f32 and the f64 instantiation",
         "Generated histories (all seven types, sinc tables up to 512x2048 points) are executed on an f32 and an f64 instance fed the same f32-representable samples: getters, returned counts and frames written must be equal at every step, outputs within 64 eps_f32 x peak. Exploration level.",
         "inputs rounded to f32; benign envelope for fixed-input ratio changes"),
 "C18": ("schedule-exploring property-based testing: generated assignment of every call of up to 16 instances to up to 16 OS threads with barrier-released rounds, for a quarter of the cases also executed as the first use of the library in a pristine process; differential against the single-threaded run and a run alone in a fresh process",
         "Generated sets of 2..16 instances with histories and a schedule (thread per call, instances migrate between calls, all calls of a round released by a barrier, construction concurrent too); per-step results, getters and output bits of every instance must equal the single-threaded run. Exploration level: the harness controls placement and overlap, not instruction-level interleaving.",
         "a race needing a narrow window can be missed"),
}
SECTION = {f"C{n:02d}": f"DESIGN.md §5/C{n:02d}" for n in range(1, 19)}
ALL = [f"C{n:02d}" for n in range(1, 19)]

checks = []
for pid in ALL:
    if pid not in BUILT: continue
    tech, text, note = BUILT[pid]
    checks.append({
        "property_id": pid,
        "quick_cmd": f"./check {pid} quick",
        "thorough_cmd": f"./check {pid} thorough",
        "evidence_file": f"/verif/evidence/{pid}.json",
        "replay_cmd_template": f"./check {pid} --replay {{path}}",
        "engine": "rv",
        "level_claimed": {"category": "exploration", "text": text, "design_ref": SECTION[pid]},
        "level_note": note,
        "technique": tech,
    })
man = {
 "version": 1,
 "setup_cmd": "cd /verif/harness && CARGO_NET_OFFLINE=true cargo build --release --offline",
 "hooks": {
   "guard": "rubato_verif",
   "enable": "none needed: every observation goes through rubato's public API (new_with_interpolator, the public sinc_interpolator kernels, a counting #[global_allocator] in the harness); the harness builds /repo as a path dependency with debug-assertions and overflow-checks on",
   "baseline_off_cmd": "cd /repo && cargo test --workspace --no-fail-fast --offline",
   "source_commits": [],
   "add_only": True,
 },
 "engines": [{"name": "rv-fuzz", "path": "/verif/harness/fuzz", "serves_properties": ["C03","C04","C10","C11","C13","C15","C16","C17"], "kind_free_text": "cargo-fuzz (libFuzzer, AddressSanitizer, debug assertions) targets hist, kernel, twins, faults: bytes decoded through arbitrary::Unstructured into the same cases as the proptest strategies, semantic oracles inside the target"}, {"name": "rv", "path": "/verif/harness", "serves_properties": [c["property_id"] for c in checks],
              "kind_free_text": "Rust binary: proptest TestRunner per lane (16 lanes, fixed seeds from VERIF_SEED), worker subprocesses for crash isolation, explicit oracle per property, shrinking to JSON replay files"}],
 "checks": checks,
 "notes": "All checks are property-based tests / fuzzing with explicit oracles (see DESIGN.md). Thorough tiers of C03, C04, C10, C11, C13, C15, C16, C17 add a libFuzzer + AddressSanitizer campaign (tools/fuzz.sh). Exit 0 held, 1 violation (VIOLATION line), 2 inconclusive (watchdog / health). Known findings: /verif/known_findings.json.",
 "not_applicable": [{"property_id": p, "reason": "check not built yet (work in progress; the design in DESIGN.md covers it)"} for p in ALL if p not in BUILT],
}
json.dump(man, open(os.path.join(ROOT, "MANIFEST.json"), "w"), indent=1)
print("wrote MANIFEST.json with", len(checks), "checks")
