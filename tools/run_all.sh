#!/bin/sh
# run every check's quick (or given) tier; print one line per property
TIER="${1:-quick}"
cd "$(dirname "$0")/.."
for n in 01 02 03 04 05 06 07 08 09 10 11 12 13 14 15 16 17 18; do
  out=$(./check C$n $TIER 2>&1); code=$?
  echo "exit=$code $(echo "$out" | grep -E "^C$n " | tail -1)"
  echo "$out" | grep -E "VIOLATION|INCONCLUSIVE|failure" | head -3
done
