#!/bin/sh
# tools/fuzz.sh <hist|kernel|twins|faults> <property-ID> [runs-per-worker] [seed]
# Coverage-guided campaign (libFuzzer + AddressSanitizer + debug assertions) for the thorough tier.
# exit 0: nothing found; 1: violation (VIOLATION line, replay file written); 2: inconclusive
ROOT=$(cd "$(dirname "$0")/.." && pwd)
TARGET="$1"; ID="$2"; RUNS="${3:-${RV_FUZZ_RUNS:-60000}}"; SEED="${4:-${VERIF_SEED:-0}}"
WORKERS="${RV_FUZZ_WORKERS:-16}"
export CARGO_NET_OFFLINE=true
cd "$ROOT/harness/fuzz" || exit 2
[ -f Cargo.lock ] || cp ../Cargo.lock .
if ! cargo +nightly fuzz build "$TARGET" >target-build.log 2>&1; then
  tail -20 target-build.log; echo "INCONCLUSIVE property=$ID fuzz target build failed"; exit 2
fi
WORK="$ROOT/harness/fuzz/target/campaign-$$"
rm -rf "$WORK"; mkdir -p "$WORK/corpus" "$WORK/artifacts"
python3 - "$WORK/corpus" "$SEED" <<'PY'
import random, sys
r = random.Random(int(sys.argv[2]) + 12345)
for i in range(64):
    n = r.choice([48, 128, 256, 512, 900])
    open(f"{sys.argv[1]}/seed{i:02d}", "wb").write(bytes(r.getrandbits(8) for _ in range(n)))
open(f"{sys.argv[1]}/empty", "wb").write(b"")
PY
T0=$(date +%s)
# seed 0 means "random" to libFuzzer: remap
LSEED=$((SEED + 1))
(cd "$WORK" && cargo +nightly fuzz run --fuzz-dir "$ROOT/harness/fuzz" "$TARGET" "$WORK/corpus" -- \
   -artifact_prefix="$WORK/artifacts/" -runs="$RUNS" -seed="$LSEED" -len_control=0 -max_len=1024 -timeout=120 \
   -jobs="$WORKERS" -workers="$WORKERS" -print_final_stats=1 >"$WORK/run.log" 2>&1)
T1=$(date +%s)
DONE=$(grep -h "stat::number_of_executed_units" "$WORK"/fuzz-*.log 2>/dev/null | awk '{s+=$2} END {print s+0}')
CRASHES=$(ls "$WORK/artifacts" 2>/dev/null | grep -c -E "^(crash|leak|timeout|oom)-")
echo "fuzz $TARGET: $DONE executions in $((T1-T0)) s on $WORKERS workers (seed $SEED), $CRASHES artifact(s)"
RV="$ROOT/harness/target/release/rv"
CODE=0
if [ "$CRASHES" -gt 0 ]; then
  mkdir -p "$ROOT/found/$ID"
  for f in "$WORK"/artifacts/crash-* "$WORK"/artifacts/timeout-* "$WORK"/artifacts/oom-*; do
    [ -f "$f" ] || continue
    case "$f" in *timeout-*|*oom-*) echo "NOTE: fuzzer reported $(basename "$f") (treated as inconclusive)"; [ $CODE -eq 0 ] && CODE=2; continue;; esac
    FC="$TARGET"; [ "$TARGET" = twins ] && FC="twins:$ID"
    CASE=$("$RV" fuzzcase "$FC" "$f") || continue
    OUT="$ROOT/found/$ID/fuzz-$(basename "$f" | cut -c7-22).json"
    printf '{"property":"%s","expect":"pass","note":"libFuzzer artifact %s (ASan, debug assertions)","case":%s}\n' "$ID" "$(basename "$f")" "$CASE" > "$OUT"
    if "$RV" replay "$ID" "$OUT" | grep -q "^VIOLATION"; then
      "$RV" replay "$ID" "$OUT" | grep -E "failure:|^VIOLATION"
      CODE=1
    else
      if [ "$TARGET" = twins ]; then
        # the twins target carries four oracles: the crash may belong to one of the other three properties
        echo "NOTE: artifact $(basename "$f") of the twins campaign does not fail the $ID oracle (it belongs to another property's campaign)"
        rm -f "$OUT"
      else
        # only the sanitizer sees it (no panic / oracle failure in the plain build): still a violation of memory safety
        echo "  failure: [asan-or-fuzz-only] the fuzz build crashed on this input but the replay in the plain build passed; see $WORK/fuzz-*.log"
        echo "VIOLATION property=$ID replay=$OUT"
        CODE=1
      fi
    fi
  done
fi
# add the campaign to the evidence file written by the proptest part of the thorough run
python3 - "$ROOT/evidence/$ID.json" "$TARGET" "$DONE" "$WORKERS" "$((T1-T0))" "$CRASHES" "$SEED" <<'PY'
import json, sys
p, target, done, workers, secs, crashes, seed = sys.argv[1:8]
try:
    e = json.load(open(p))
except Exception:
    sys.exit(0)
e["coverage"].setdefault("fuzz_campaigns", []).append({"engine": "libFuzzer (cargo-fuzz), AddressSanitizer, debug assertions", "target": target, "executions": int(done), "workers": int(workers), "wall_s": int(secs), "artifacts": int(crashes), "seed": int(seed)})
if int(crashes) > 0:
    e["violations"] = e.get("violations", 0) + int(crashes)
json.dump(e, open(p, "w"), indent=1)
PY
[ $CODE -eq 0 ] && rm -rf "$WORK"
exit $CODE
