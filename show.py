#!/usr/bin/env python3
import json,sys
for f in sys.argv[1:]:
    r=json.load(open(f))
    c=r['case']
    print(f); print(' ',r.get('failure'))
    def walk(c,ind=2):
        for k,v in c.items():
            if k=='ops':
                for o in v: print(' '*ind+'  ',json.dumps(o))
            elif isinstance(v,dict) and k!='cfg': 
                print(' '*ind+k+':'); walk(v,ind+2)
            else: print(' '*ind+k+':',json.dumps(v))
    walk(c)
